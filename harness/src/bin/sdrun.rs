//! implementation-side runner for C12/C13/C14: same scenario lines, same canonical output
//! lines as ocaml/sd/driver.ml, produced by the real `embedded_sdmmc::SdCard` over a mock
//! `SpiDevice`/`DelayNs`.  The card side is (a) a raw scripted MISO stream or (b) an SD card
//! simulator (three kinds, seeded timing, fault injection).  Lines starting with "O " are
//! oracle side-information (simulator memory, capacity, flat MISO stream), not compared
//! with the model.
use embedded_hal::delay::DelayNs;
use embedded_hal::spi::{ErrorKind, ErrorType, Operation, SpiDevice};
use embedded_sdmmc::sdcard::proto::{crc16, crc7, CsdV1, CsdV2};
use embedded_sdmmc::sdcard::{AcquireOpts, SdCard};
use embedded_sdmmc::{Block, BlockDevice, BlockIdx};
use std::cell::RefCell;
use std::collections::HashMap;
use std::io::{self, BufRead, Write};
use std::panic::{catch_unwind, AssertUnwindSafe};
use std::rc::Rc;

const PRIME: u64 = 2147483647;
fn step(h: u64, r: u64) -> u64 {
    (h * 1000003 + r + 1) % PRIME
}
fn digest(b: &[u8]) -> u64 {
    b.iter().fold(0, |h, &x| step(h, x as u64))
}
fn gen_byte(seed: u64, i: u64, j: u64) -> u8 {
    ((((seed + i * 977 + 1) * 1103515245 + j * 12345 + j * j * 7) >> 8) & 255) as u8
}
fn gen_block(seed: u64, i: u64) -> [u8; 512] {
    let mut b = [0u8; 512];
    for j in 0..512 {
        b[j] = gen_byte(seed, i, j as u64);
    }
    b
}
/// card timing draw, same formula in ocaml/sd/driver.ml
fn tval(seed: u64, stream: u64, k: u64, max: u64) -> u64 {
    let mut x = (seed * 1000003 + stream * 7919 + (k % 1000003) * 104729 + 12345) & 0x3FFFFFFF;
    x = (x * 1103515245 + 12345) & 0x3FFFFFFF;
    x ^= x >> 13;
    let mode = x % 8;
    let y = x >> 3;
    if mode < 5 {
        y % (max.min(3) + 1)
    } else if mode < 7 {
        y % (max + 1)
    } else {
        max
    }
}
fn unhex(s: &str) -> Vec<u8> {
    (0..s.len() / 2).map(|i| u8::from_str_radix(&s[2 * i..2 * i + 2], 16).unwrap()).collect()
}
fn hex(b: &[u8]) -> String {
    b.iter().map(|x| format!("{:02x}", x)).collect()
}
fn unrle(s: &str) -> Vec<u8> {
    if s == "-" || s.is_empty() {
        return vec![];
    }
    let mut v = vec![];
    for tok in s.split(',') {
        if let Some(k) = tok.find('*') {
            let b = u8::from_str_radix(&tok[..k], 16).unwrap();
            let c: usize = tok[k + 1..].parse().unwrap();
            v.extend(std::iter::repeat(b).take(c));
        } else {
            v.extend(unhex(tok));
        }
    }
    v
}
fn rle(b: &[u8]) -> String {
    if b.is_empty() {
        return "-".into();
    }
    let mut toks: Vec<String> = vec![];
    let mut lit = String::new();
    let mut i = 0;
    while i < b.len() {
        let mut j = i;
        while j < b.len() && b[j] == b[i] {
            j += 1;
        }
        if j - i >= 4 {
            if !lit.is_empty() {
                toks.push(std::mem::take(&mut lit));
            }
            toks.push(format!("{:02x}*{}", b[i], j - i));
        } else {
            for _ in i..j {
                lit.push_str(&format!("{:02x}", b[i]));
            }
        }
        i = j;
    }
    if !lit.is_empty() {
        toks.push(lit);
    }
    toks.join(",")
}

// ------------------------------------------------------------------------------------------
// SD card simulator (mirrors LEGALCARD of coq/sd/SdSpec.v, plus fault options)
// ------------------------------------------------------------------------------------------
#[derive(Clone, Copy, PartialEq, Debug)]
enum Kind {
    V1SC,
    V2SC,
    V2HC,
}
enum Phase {
    Idle,
    NextBlock(u64),
    WaitTok(bool, u64),
    Recv(bool, u64, Vec<u8>),
}
struct Card {
    kind: Kind,
    csd: [u8; 16],
    memseed: u64,
    tseed: u64,
    tmax: [u64; 5],
    mem: HashMap<u64, [u8; 512]>,
    idle: bool,
    crc: bool,
    app: bool,
    init_left: u64,
    reading: bool,
    tick: u64,
    fbuf: Vec<u8>,
    out: std::collections::VecDeque<u8>,
    phase: Phase,
    // fault options (not part of a legal card)
    wres: Option<u8>,
    st13: Option<(u8, u8)>,
    stuck41: bool,      // ACMD41 never reports ready
    r58: Option<u8>,    // R1 of CMD58
    // bookkeeping for the oracle lines
    dirty: Vec<u64>,
}
fn csd_slice(csd: &[u8; 16], hi: u32, lo: u32) -> u64 {
    let v = u128::from_be_bytes(*csd);
    ((v >> lo) & ((1u128 << (hi + 1 - lo)) - 1)) as u64
}
fn spec_capacity_bytes(csd: &[u8; 16]) -> u128 {
    if csd_slice(csd, 127, 126) == 0 {
        let c_size = csd_slice(csd, 73, 62) as u128;
        let mult = csd_slice(csd, 49, 47) as u32;
        let bl = csd_slice(csd, 83, 80) as u32;
        (c_size + 1) << (mult + 2 + bl)
    } else {
        (csd_slice(csd, 69, 48) as u128 + 1) * 524288
    }
}
impl Card {
    fn nblocks(&self) -> u64 {
        (spec_capacity_bytes(&self.csd) / 512) as u64
    }
    fn block(&self, b: u64) -> [u8; 512] {
        match self.mem.get(&b) {
            Some(x) => *x,
            None => gen_block(self.memseed, b),
        }
    }
    fn t(&self, stream: usize, k: u64) -> usize {
        tval(self.tseed, stream as u64, k, self.tmax[stream]) as usize
    }
    fn r1(&self, bits: u8) -> u8 {
        bits | if self.idle { 1 } else { 0 }
    }
    fn packet(d: &[u8]) -> Vec<u8> {
        let mut v = vec![0xFE];
        v.extend_from_slice(d);
        v.extend_from_slice(&crc16(d).to_be_bytes());
        v
    }
    fn decode_addr(&self, arg: u32) -> Result<u64, u8> {
        let arg = arg as u64;
        match self.kind {
            Kind::V2HC => {
                if arg < self.nblocks() {
                    Ok(arg)
                } else {
                    Err(64)
                }
            }
            _ => {
                if arg % 512 != 0 {
                    Err(32)
                } else if arg / 512 < self.nblocks() {
                    Ok(arg / 512)
                } else {
                    Err(64)
                }
            }
        }
    }
    fn set_out(&mut self, v: Vec<u8>, nxt: Phase) {
        self.out = v.into();
        self.phase = nxt;
    }
    fn respond(&mut self, k: u64, resp: Vec<u8>, nxt: Phase) {
        let mut v = vec![0xFF; self.t(0, k)];
        v.extend(resp);
        self.set_out(v, nxt);
    }
    fn exec(&mut self, cmd: u8, arg: u32) {
        let k = self.tick;
        let was_app = self.app;
        if cmd != 0 && self.reading && cmd != 12 {
            return; // ignored: state untouched (fbuf already cleared)
        }
        self.app = false;
        self.tick += 1;
        if cmd == 0 {
            self.idle = true;
            self.crc = false;
            self.init_left = self.t(4, k) as u64;
            self.reading = false;
            self.respond(k, vec![1], Phase::Idle);
            return;
        }
        if self.reading {
            // cmd == 12
            self.reading = false;
            let mut v = vec![127u8];
            v.extend(vec![0xFF; self.t(0, k)]);
            v.push(self.r1(0));
            v.extend(vec![0u8; self.t(3, k)]);
            self.set_out(v, Phase::Idle);
            return;
        }
        if cmd == 12 && matches!(self.phase, Phase::WaitTok(true, _)) {
            let mut v = vec![127u8];
            v.extend(vec![0xFF; self.t(0, k)]);
            v.push(self.r1(0));
            v.extend(vec![0u8; self.t(3, k)]);
            self.set_out(v, Phase::Idle);
            return;
        }
        let illegal = vec![self.r1(4)];
        match cmd {
            8 => {
                if self.kind == Kind::V1SC {
                    self.respond(k, illegal, Phase::Idle)
                } else {
                    let r = vec![self.r1(0), 0, 0, ((arg >> 8) & 15) as u8, (arg & 255) as u8];
                    self.respond(k, r, Phase::Idle)
                }
            }
            55 => {
                self.app = true;
                let r = vec![self.r1(0)];
                self.respond(k, r, Phase::Idle)
            }
            58 if self.r58.is_some() => {
                let r = vec![self.r58.unwrap()];
                self.respond(k, r, Phase::Idle)
            }
            58 => {
                let ocr0 = if self.idle {
                    0
                } else if self.kind == Kind::V2HC {
                    192
                } else {
                    128
                };
                let r = vec![self.r1(0), ocr0, 255, 128, 0];
                self.respond(k, r, Phase::Idle)
            }
            59 => {
                self.crc = arg & 1 == 1;
                let r = vec![self.r1(0)];
                self.respond(k, r, Phase::Idle)
            }
            13 => {
                let r = match self.st13 {
                    Some((a, b)) => vec![a, b],
                    None => vec![self.r1(0), 0],
                };
                self.respond(k, r, Phase::Idle)
            }
            41 if was_app => {
                if self.idle {
                    let hcs_ok = self.kind != Kind::V2HC || (arg >> 30) & 1 == 1;
                    if hcs_ok && !self.stuck41 {
                        if self.init_left == 0 {
                            self.idle = false;
                            self.respond(k, vec![0], Phase::Idle)
                        } else {
                            self.init_left -= 1;
                            self.respond(k, vec![1], Phase::Idle)
                        }
                    } else {
                        self.respond(k, vec![1], Phase::Idle)
                    }
                } else {
                    self.respond(k, vec![0], Phase::Idle)
                }
            }
            _ if self.idle => self.respond(k, illegal, Phase::Idle),
            23 if was_app => self.respond(k, vec![0], Phase::Idle),
            9 => {
                let mut d = vec![0u8];
                d.extend(vec![0xFF; self.t(1, k)]);
                d.extend(Card::packet(&self.csd));
                self.respond(k, d, Phase::Idle)
            }
            17 => match self.decode_addr(arg) {
                Ok(b) => {
                    let mut d = vec![0u8];
                    d.extend(vec![0xFF; self.t(1, k)]);
                    d.extend(Card::packet(&self.block(b)));
                    self.respond(k, d, Phase::Idle)
                }
                Err(e) => self.respond(k, vec![e], Phase::Idle),
            },
            18 => match self.decode_addr(arg) {
                Ok(b) => {
                    self.reading = true;
                    self.respond(k, vec![0], Phase::NextBlock(b))
                }
                Err(e) => self.respond(k, vec![e], Phase::Idle),
            },
            24 => match self.decode_addr(arg) {
                Ok(b) => self.respond(k, vec![0], Phase::WaitTok(false, b)),
                Err(e) => self.respond(k, vec![e], Phase::Idle),
            },
            25 => match self.decode_addr(arg) {
                Ok(b) => self.respond(k, vec![0], Phase::WaitTok(true, b)),
                Err(e) => self.respond(k, vec![e], Phase::Idle),
            },
            _ => self.respond(k, illegal, Phase::Idle),
        }
    }
    fn on_frame(&mut self, f: &[u8]) {
        let cmd = f[0] & 63;
        let arg = u32::from_be_bytes([f[1], f[2], f[3], f[4]]);
        if (self.crc || cmd == 0 || cmd == 8) && crc7(&f[0..5]) != f[5] {
            let k = self.tick;
            self.app = false;
            self.tick += 1;
            let mut v = vec![0xFF; self.t(0, k)];
            v.push(self.r1(8));
            self.out = v.into();
        } else {
            self.exec(cmd, arg);
        }
    }
    fn feed_frame(&mut self, mosi: u8) {
        if self.fbuf.is_empty() {
            if mosi & 192 == 64 {
                self.fbuf.push(mosi);
            }
        } else {
            self.fbuf.push(mosi);
            if self.fbuf.len() == 6 {
                let f = std::mem::take(&mut self.fbuf);
                self.on_frame(&f);
            }
        }
    }
    fn on_block(&mut self, multi: bool, blk: u64, got: &[u8]) {
        let d = &got[0..512];
        let crc = u16::from_be_bytes([got[512], got[513]]);
        let k = self.tick;
        self.tick += 1;
        let back = |b: u64| if multi { Phase::WaitTok(true, b) } else { Phase::Idle };
        if self.crc && crc16(d) != crc {
            self.set_out(vec![235], back(blk));
        } else if blk >= self.nblocks() {
            self.set_out(vec![237], back(blk));
        } else if let Some(code) = self.wres.filter(|c| c & 0x1F != 5) {
            self.set_out(vec![code], back(blk));
        } else {
            let mut a = [0u8; 512];
            a.copy_from_slice(d);
            self.mem.insert(blk, a);
            self.dirty.push(blk);
            let mut v = vec![self.wres.unwrap_or(229)];
            v.extend(vec![0u8; self.t(2, k)]);
            self.set_out(v, back(blk + 1));
        }
    }
    fn byte(&mut self, mosi: u8) -> u8 {
        if let Some(b) = self.out.pop_front() {
            self.feed_frame(mosi);
            return b;
        }
        match &mut self.phase {
            Phase::Idle => {
                self.feed_frame(mosi);
                255
            }
            Phase::NextBlock(b) => {
                let b = *b;
                if b < self.nblocks() {
                    let k = self.tick;
                    self.tick += 1;
                    let mut d = vec![0xFF; self.t(1, k)];
                    d.extend(Card::packet(&self.block(b)));
                    let first = d.remove(0);
                    self.set_out(d, Phase::NextBlock(b + 1));
                    self.feed_frame(mosi);
                    first
                } else {
                    self.feed_frame(mosi);
                    255
                }
            }
            Phase::Recv(multi, blk, got) => {
                got.push(mosi);
                if got.len() == 514 {
                    let (m, b, g) = (*multi, *blk, std::mem::take(got));
                    self.on_block(m, b, &g);
                }
                255
            }
            Phase::WaitTok(multi, blk) => {
                let (multi, blk) = (*multi, *blk);
                if self.fbuf.is_empty() {
                    if mosi == 254 && !multi {
                        self.phase = Phase::Recv(false, blk, vec![]);
                    } else if mosi == 252 && multi {
                        self.phase = Phase::Recv(true, blk, vec![]);
                    } else if mosi == 253 && multi {
                        let k = self.tick;
                        self.tick += 1;
                        let v = vec![0u8; self.t(3, k)];
                        self.set_out(v, Phase::Idle);
                    } else {
                        self.feed_frame(mosi);
                    }
                } else {
                    self.feed_frame(mosi);
                }
                255
            }
        }
    }
}

// ------------------------------------------------------------------------------------------
// bus mock
// ------------------------------------------------------------------------------------------
enum Backend {
    Raw { miso: Vec<u8>, pos: usize, pad: u8 },
    Sim(Box<Card>),
}
#[derive(Clone)]
enum Ev {
    W(Vec<u8>, Vec<u8>),
    T(Vec<u8>, Vec<u8>),
    I(Vec<u8>, Vec<u8>),
    D(u32),
    F(char, Vec<u8>),
}
struct Bus {
    be: Backend,
    log: Vec<Ev>,
    calln: u64,
    fails: Vec<(u64, bool)>,
    nbytes: u64, // bytes clocked so far (global MISO position)
    flips: Vec<(u64, u8)>,
    dead: Option<(u64, u8)>, // from this MISO position on: 0 = FF, 1 = 00, 2 = pseudo-random
    all_miso: Vec<u8>,
    call_bytes: u64, // bytes clocked during the current API call
    hung: bool,      // the call exceeded CALL_BUDGET bytes: treated as "does not return"
}
const CALL_BUDGET: u64 = 40_000_000;
impl Bus {
    fn fails_now(&self) -> bool {
        self.fails.iter().any(|&(v, from)| if from { self.calln >= v } else { self.calln == v })
    }
    fn clock(&mut self, mosi: u8) -> u8 {
        self.call_bytes += 1;
        if self.call_bytes > CALL_BUDGET {
            self.hung = true;
            panic!("call budget exceeded");
        }
        let mut m = match &mut self.be {
            Backend::Raw { miso, pos, pad } => {
                if *pos < miso.len() {
                    *pos += 1;
                    miso[*pos - 1]
                } else {
                    *pad
                }
            }
            Backend::Sim(c) => c.byte(mosi),
        };
        let p = self.nbytes;
        for &(fp, mask) in &self.flips {
            if fp == p {
                m ^= mask;
            }
        }
        if let Some((dp, mode)) = self.dead {
            if p >= dp {
                m = match mode {
                    0 => 0xFF,
                    1 => 0x00,
                    _ => ((p * 2654435761u64 + 12345) >> 7) as u8,
                };
            }
        }
        self.nbytes += 1;
        self.all_miso.push(m);
        m
    }
    fn xfer(&mut self, out: &[u8]) -> Vec<u8> {
        out.iter().map(|&b| self.clock(b)).collect()
    }
}
#[derive(Debug)]
struct BusErr;
impl embedded_hal::spi::Error for BusErr {
    fn kind(&self) -> ErrorKind {
        ErrorKind::Other
    }
}
struct MockSpi(Rc<RefCell<Bus>>);
impl ErrorType for MockSpi {
    type Error = BusErr;
}
impl SpiDevice<u8> for MockSpi {
    fn transaction(&mut self, ops: &mut [Operation<'_, u8>]) -> Result<(), BusErr> {
        let mut bus = self.0.borrow_mut();
        for op in ops.iter_mut() {
            match op {
                Operation::DelayNs(ns) => bus.log.push(Ev::D(*ns / 1000)),
                _ => {
                    let failing = bus.fails_now();
                    bus.calln += 1;
                    match op {
                        Operation::Write(out) => {
                            if failing {
                                bus.log.push(Ev::F('W', out.to_vec()));
                                return Err(BusErr);
                            }
                            let m = bus.xfer(out);
                            bus.log.push(Ev::W(out.to_vec(), m));
                        }
                        Operation::Transfer(rd, wr) => {
                            if failing {
                                bus.log.push(Ev::F('T', wr.to_vec()));
                                return Err(BusErr);
                            }
                            // the driver only uses equal lengths; clock max(len) bytes
                            let n = rd.len().max(wr.len());
                            let mut out = wr.to_vec();
                            out.resize(n, 0xFF);
                            let m = bus.xfer(&out);
                            let k = rd.len();
                            rd.copy_from_slice(&m[..k]);
                            bus.log.push(Ev::T(wr.to_vec(), m));
                        }
                        Operation::TransferInPlace(buf) => {
                            if failing {
                                bus.log.push(Ev::F('I', buf.to_vec()));
                                return Err(BusErr);
                            }
                            let out = buf.to_vec();
                            let m = bus.xfer(&out);
                            buf.copy_from_slice(&m);
                            bus.log.push(Ev::I(out, m));
                        }
                        Operation::Read(rd) => {
                            if failing {
                                bus.log.push(Ev::F('R', vec![]));
                                return Err(BusErr);
                            }
                            let out = vec![0xFF; rd.len()];
                            let m = bus.xfer(&out);
                            rd.copy_from_slice(&m);
                            bus.log.push(Ev::T(out, m));
                        }
                        Operation::DelayNs(_) => unreachable!(),
                    }
                }
            }
        }
        Ok(())
    }
}
struct MockDelay(Rc<RefCell<Bus>>);
impl DelayNs for MockDelay {
    fn delay_ns(&mut self, ns: u32) {
        self.0.borrow_mut().log.push(Ev::D(ns / 1000));
    }
    fn delay_us(&mut self, us: u32) {
        self.0.borrow_mut().log.push(Ev::D(us));
    }
    fn delay_ms(&mut self, ms: u32) {
        self.0.borrow_mut().log.push(Ev::D(ms * 1000));
    }
}

fn line_of(e: &Ev) -> (String, bool, bool) {
    match e {
        Ev::D(us) => (format!("D {}", us), false, true),
        Ev::W(o, m) => (format!("W {} {}", hex(o), hex(m)), false, false),
        Ev::T(o, m) => (format!("T {} {}", hex(o), hex(m)), o.len() == 1, false),
        Ev::I(o, m) => (format!("I {} {}", hex(o), hex(m)), false, false),
        Ev::F(k, o) => (format!("F {} {}", k, hex(o)), false, false),
    }
}
fn print_trace(out: &mut impl Write, evs: &[Ev]) {
    let lines: Vec<(String, bool, bool)> = evs.iter().map(line_of).collect();
    let mut units: Vec<String> = vec![];
    let mut i = 0;
    while i < lines.len() {
        if lines[i].1 && i + 1 < lines.len() && lines[i + 1].2 {
            units.push(format!("P{} {}", &lines[i].0[1..], &lines[i + 1].0[2..]));
            i += 2;
        } else {
            units.push(lines[i].0.clone());
            i += 1;
        }
    }
    let mut i = 0;
    while i < units.len() {
        let mut j = i;
        while j < units.len() && units[j] == units[i] {
            j += 1;
        }
        if j - i > 1 {
            writeln!(out, "{} *{}", units[i], j - i).unwrap();
        } else {
            writeln!(out, "{}", units[i]).unwrap();
        }
        i = j;
    }
}

fn err_name(e: &embedded_sdmmc::sdcard::Error) -> String {
    use embedded_sdmmc::sdcard::Error::*;
    match e {
        Transport => "Transport".into(),
        CantEnableCRC => "CantEnableCRC".into(),
        TimeoutReadBuffer => "TimeoutReadBuffer".into(),
        TimeoutWaitNotBusy => "TimeoutWaitNotBusy".into(),
        TimeoutCommand(c) => format!("TimeoutCommand({})", c),
        TimeoutACommand(c) => format!("TimeoutACommand({})", c),
        Cmd58Error => "Cmd58Error".into(),
        RegisterReadError => "RegisterReadError".into(),
        CrcError(a, b) => format!("CrcError({},{})", a, b),
        ReadError => "ReadError".into(),
        WriteError => "WriteError".into(),
        BadState => "BadState".into(),
        CardNotFound => "CardNotFound".into(),
        GpioError => "GpioError".into(),
    }
}

fn parse_fails(s: &str) -> Vec<(u64, bool)> {
    if s == "-" {
        return vec![];
    }
    s.split(',')
        .map(|t| if let Some(x) = t.strip_suffix('+') { (x.parse().unwrap(), true) } else { (t.parse().unwrap(), false) })
        .collect()
}

fn run_scenario(out: &mut impl Write, id: &str, crc: &str, retries: &str, be: Backend, faults: &str, fails: &str, calls: &str) {
    let is_sim = matches!(be, Backend::Sim(_));
    let mut flips = vec![];
    let mut dead = None;
    let mut be = be;
    if faults != "-" {
        for f in faults.split(',') {
            let p: Vec<&str> = f.split(':').collect();
            match p[0] {
                "flip" => flips.push((p[1].parse().unwrap(), u8::from_str_radix(p[2], 16).unwrap())),
                "dead" => dead = Some((p[1].parse().unwrap(), p[2].parse().unwrap())),
                "wres" => {
                    if let Backend::Sim(c) = &mut be {
                        c.wres = Some(u8::from_str_radix(p[1], 16).unwrap())
                    }
                }
                "stuck41" => {
                    if let Backend::Sim(c) = &mut be {
                        c.stuck41 = true
                    }
                }
                "r58" => {
                    if let Backend::Sim(c) = &mut be {
                        c.r58 = Some(u8::from_str_radix(p[1], 16).unwrap())
                    }
                }
                "st13" => {
                    if let Backend::Sim(c) = &mut be {
                        c.st13 = Some((u8::from_str_radix(p[1], 16).unwrap(), u8::from_str_radix(p[2], 16).unwrap()))
                    }
                }
                _ => panic!("bad fault {}", f),
            }
        }
    }
    let bus = Rc::new(RefCell::new(Bus { be, log: vec![], calln: 0, fails: parse_fails(fails), nbytes: 0, flips, dead, all_miso: vec![], call_bytes: 0, hung: false }));
    let card = SdCard::new_with_options(
        MockSpi(bus.clone()),
        MockDelay(bus.clone()),
        AcquireOpts { use_crc: crc == "1", acquire_retries: retries.parse().unwrap() },
    );
    writeln!(out, "B {}", id).unwrap();
    if is_sim {
        if let Backend::Sim(c) = &bus.borrow().be {
            writeln!(out, "O card {:?} nblocks {} bytes {}", c.kind, c.nblocks(), spec_capacity_bytes(&c.csd)).unwrap();
        }
    }
    let calls: Vec<&str> = if calls == "-" { vec![] } else { calls.split(';').collect() };
    for (k, cs) in calls.iter().enumerate() {
        let p: Vec<&str> = cs.split(':').collect();
        // oracle: expected content for reads
        let mut exp: Option<String> = None;
        if is_sim {
            if let Backend::Sim(c) = &mut bus.borrow_mut().be {
                c.dirty.clear();
                if p[0] == "r" || p[0] == "rd" {
                    let n: u64 = p[1].parse().unwrap();
                    let idx: u64 = p[2].parse().unwrap();
                    let mut all = vec![];
                    for i in 0..n {
                        all.extend_from_slice(&c.block(idx + i));
                    }
                    exp = Some(format!("O exp {} {}", k, digest(&all)));
                }
            }
        }
        let before: HashMap<u64, [u8; 512]> = if is_sim {
            if let Backend::Sim(c) = &bus.borrow().be { c.mem.clone() } else { HashMap::new() }
        } else {
            HashMap::new()
        };
        bus.borrow_mut().call_bytes = 0;
        let res: Result<Result<String, String>, ()> = catch_unwind(AssertUnwindSafe(|| match p[0] {
            "r" | "rd" => {
                let n: usize = p[1].parse().unwrap();
                let idx: u32 = p[2].parse().unwrap();
                let mut blocks = vec![Block::new(); n];
                if p[0] == "rd" {
                    // a reused buffer: previous contents happen to be stop-transmission frames
                    // (the driver must clock out 0xFF during the data phase whatever the buffer held)
                    for b in blocks.iter_mut() {
                        for (i, x) in b.contents.iter_mut().enumerate() {
                            *x = [0x4C, 0, 0, 0, 0, 0x61][i % 6];
                        }
                    }
                }
                card.read(&mut blocks, BlockIdx(idx)).map(|_| {
                    let all: Vec<u8> = blocks.iter().flat_map(|b| b.contents.iter().cloned()).collect();
                    format!("blocks {} {}", n, digest(&all))
                })
            }
            "w" => {
                let idx: u32 = p[1].parse().unwrap();
                let n: usize = p[2].parse().unwrap();
                let seed: u64 = p[3].parse().unwrap();
                let mut blocks = vec![Block::new(); n];
                for (i, b) in blocks.iter_mut().enumerate() {
                    b.contents = gen_block(seed, i as u64);
                }
                card.write(&blocks, BlockIdx(idx)).map(|_| "unit".to_string())
            }
            "nb" => card.num_blocks().map(|c| format!("num {}", c.0)),
            "ny" => card.num_bytes().map(|c| format!("num {}", c)),
            "es" => card.erase_single_block_enabled().map(|b| format!("bool {}", b)),
            "mu" => {
                card.mark_card_uninit();
                Ok("unit".to_string())
            }
            "gt" => Ok(format!("type {}", match card.get_card_type() { None => "None".to_string(), Some(t) => format!("{:?}", t) })),
            // the card in the slot is exchanged for one of the same kind with another CSD (no driver call: the host
            // is expected to call mark_card_uninit next)
            "sw" => {
                if let Backend::Sim(c) = &mut bus.borrow_mut().be {
                    let v = unhex(p[1]);
                    c.csd.copy_from_slice(&v);
                }
                Ok("unit".to_string())
            }
            _ => panic!("bad call"),
        }
        .map_err(|e| err_name(&e))))
        .map_err(|_| ());
        let evs: Vec<Ev> = std::mem::take(&mut bus.borrow_mut().log);
        print_trace(out, &evs);
        match &res {
            Ok(Ok(v)) => writeln!(out, "R {} ok {}", k, v).unwrap(),
            Ok(Err(e)) => writeln!(out, "R {} err {}", k, e).unwrap(),
            Err(()) => {
                // (a RefCell borrow may still be held by the unwound transaction: try_borrow)
                let hung = bus.try_borrow().map(|b| b.hung).unwrap_or(true);
                if hung {
                    writeln!(out, "R {} hang", k).unwrap()
                } else {
                    writeln!(out, "R {} panic", k).unwrap()
                }
            }
        }
        if let Some(e) = exp {
            writeln!(out, "{}", e).unwrap();
        }
        if p[0] == "sw" {
            if let Backend::Sim(c) = &bus.borrow().be {
                writeln!(out, "O cardat {} {:?} nblocks {} bytes {}", k, c.kind, c.nblocks(), spec_capacity_bytes(&c.csd)).unwrap();
            }
        }
        if is_sim {
            if let Backend::Sim(c) = &bus.borrow().be {
                let mut d: Vec<u64> = c.dirty.clone();
                d.sort();
                d.dedup();
                let items: Vec<String> = d
                    .iter()
                    .filter(|b| before.get(b).map(|x| x[..] != c.block(**b)[..]).unwrap_or(c.block(**b)[..] != gen_block(c.memseed, **b)[..]))
                    .map(|b| format!("{}:{}", b, digest(&c.block(*b))))
                    .collect();
                writeln!(out, "O chg {} {}", k, if items.is_empty() { "-".to_string() } else { items.join(",") }).unwrap();
            }
        }
        if res.is_err() {
            break;
        }
    }
    {
        let b = bus.borrow();
        writeln!(out, "O miso {}", rle(&b.all_miso)).unwrap();
    }
    writeln!(out, "E {}", id).unwrap();
}

fn main() {
    std::panic::set_hook(Box::new(|_| {}));
    let stdin = io::stdin();
    let out = io::stdout();
    let mut out = io::BufWriter::new(out.lock());
    for line in stdin.lock().lines() {
        let line = line.unwrap();
        let p: Vec<&str> = line.trim().split(' ').collect();
        match p.as_slice() {
            ["S", id, crc, retries, "raw", miso, pad, fails, calls] => {
                let be = Backend::Raw { miso: unrle(miso), pos: 0, pad: u8::from_str_radix(pad, 16).unwrap() };
                run_scenario(&mut out, id, crc, retries, be, "-", fails, calls);
            }
            ["S", id, crc, retries, "sim", kind, csd, memseed, tseed, m0, m1, m2, m3, m4, faults, fails, calls] => {
                let kind = match *kind {
                    "V1SC" => Kind::V1SC,
                    "V2SC" => Kind::V2SC,
                    _ => Kind::V2HC,
                };
                let mut c = [0u8; 16];
                c.copy_from_slice(&unhex(csd));
                let card = Card {
                    kind,
                    csd: c,
                    memseed: memseed.parse().unwrap(),
                    tseed: tseed.parse().unwrap(),
                    tmax: [m0.parse().unwrap(), m1.parse().unwrap(), m2.parse().unwrap(), m3.parse().unwrap(), m4.parse().unwrap()],
                    mem: HashMap::new(),
                    idle: true,
                    crc: false,
                    app: false,
                    init_left: 0,
                    reading: false,
                    tick: 0,
                    fbuf: vec![],
                    out: Default::default(),
                    phase: Phase::Idle,
                    wres: None,
                    st13: None,
                    stuck41: false,
                    r58: None,
                    dirty: vec![],
                };
                run_scenario(&mut out, id, crc, retries, Backend::Sim(Box::new(card)), faults, fails, calls);
            }
            ["CAP", h] => {
                let mut d = [0u8; 16];
                d.copy_from_slice(&unhex(h));
                let f = |r: std::thread::Result<u64>| match r {
                    Ok(v) => v.to_string(),
                    Err(_) => "panic".to_string(),
                };
                let a = f(catch_unwind(|| CsdV1 { data: d }.card_capacity_blocks() as u64));
                let b = f(catch_unwind(|| CsdV1 { data: d }.card_capacity_bytes()));
                let c = f(catch_unwind(|| CsdV2 { data: d }.card_capacity_blocks() as u64));
                let e = f(catch_unwind(|| CsdV2 { data: d }.card_capacity_bytes()));
                writeln!(out, "CAP {} {} {} {}", a, b, c, e).unwrap();
            }
            [""] => {}
            _ => writeln!(out, "ERR bad command {}", &line[..line.len().min(80)]).unwrap(),
        }
    }
}
