//! implementation-side runner for the file-system properties: executes a script against the
//! real crate over a sparse RAM block device and prints the same canonical trace lines as
//! ocaml/fs/driver.ml.  Optionally dumps every device write (`--writes <file>`).
use embedded_sdmmc::{
    Block, BlockCount, BlockDevice, BlockIdx, Error, LfnBuffer, Mode, RawDirectory, RawFile, RawVolume, TimeSource, Timestamp,
    VolumeIdx, VolumeManager,
};
use std::mem::ManuallyDrop;
use std::sync::atomic::{AtomicBool, Ordering};

/// `--raii`: every operation that has a counterpart on the RAII wrappers `Volume` / `Directory` / `File`
/// is issued through a wrapper built around the raw handle (and forgotten afterwards, so that the handle
/// stays open exactly as the script says); the trace must be the one of the raw API.
static RAII: AtomicBool = AtomicBool::new(false);
fn raii() -> bool { RAII.load(Ordering::Relaxed) }
use std::cell::{Cell, RefCell};
use std::collections::{HashMap, HashSet};
use std::io::{BufRead, Write as IoWrite};
use std::panic::{catch_unwind, AssertUnwindSafe};

const PRIME: u64 = 2147483647;
fn hash_bytes(b: &[u8]) -> u64 {
    let mut h = b.len() as u64;
    for &x in b {
        h = (h * 1000003 + x as u64 + 1) % PRIME;
    }
    h
}
fn hex(b: &[u8]) -> String {
    b.iter().map(|x| format!("{:02x}", x)).collect()
}
fn unhex(s: &str) -> Vec<u8> {
    (0..s.len() / 2).map(|i| u8::from_str_radix(&s[2 * i..2 * i + 2], 16).unwrap()).collect()
}
fn pattern(len: usize, seed: usize) -> Vec<u8> {
    (0..len).map(|i| ((seed * 131 + i * 7 + (i / 256) * 13 + (i / 65536) * 101) & 255) as u8).collect()
}

#[derive(Clone, Debug)]
enum Call {
    R(u32),
    W(u32, u64),
    RF(u32),
    WF(u32),
}

struct Dev {
    blocks: RefCell<HashMap<u32, [u8; 512]>>,
    ncalls: Cell<u64>,
    faults: HashSet<u64>,
    log: RefCell<Vec<Call>>,
    writes: RefCell<Vec<(u64, u32, [u8; 512])>>,
    keep_writes: bool,
    cur_op: Cell<u64>,
}
impl std::fmt::Debug for Dev {
    fn fmt(&self, f: &mut std::fmt::Formatter) -> std::fmt::Result {
        write!(f, "Dev")
    }
}
#[derive(Debug)]
struct DevErr;

impl BlockDevice for &Dev {
    type Error = DevErr;
    fn read(&self, blocks: &mut [Block], start: BlockIdx) -> Result<(), DevErr> {
        for (k, b) in blocks.iter_mut().enumerate() {
            let idx = start.0 + k as u32;
            let n = self.ncalls.get();
            self.ncalls.set(n + 1);
            if self.faults.contains(&n) {
                b.contents = [0xAA; 512];
                self.log.borrow_mut().push(Call::RF(idx));
                return Err(DevErr);
            }
            b.contents = *self.blocks.borrow().get(&idx).unwrap_or(&[0u8; 512]);
            self.log.borrow_mut().push(Call::R(idx));
        }
        Ok(())
    }
    fn write(&self, blocks: &[Block], start: BlockIdx) -> Result<(), DevErr> {
        for (k, b) in blocks.iter().enumerate() {
            let idx = start.0 + k as u32;
            let n = self.ncalls.get();
            self.ncalls.set(n + 1);
            if self.faults.contains(&n) {
                self.log.borrow_mut().push(Call::WF(idx));
                return Err(DevErr);
            }
            self.blocks.borrow_mut().insert(idx, b.contents);
            self.log.borrow_mut().push(Call::W(idx, hash_bytes(&b.contents)));
            if self.keep_writes {
                self.writes.borrow_mut().push((self.cur_op.get(), idx, b.contents));
            }
        }
        Ok(())
    }
    fn num_blocks(&self) -> Result<BlockCount, DevErr> {
        Ok(BlockCount(u32::MAX))
    }
}

#[derive(Debug)]
struct Clock {
    k: Cell<u32>,
}
impl TimeSource for &Clock {
    fn get_timestamp(&self) -> Timestamp {
        let k = self.k.get();
        self.k.set(k + 1);
        Timestamp {
            year_since_1970: (10 + (k % 100)) as u8,
            zero_indexed_month: (k % 12) as u8,
            zero_indexed_day: (k % 28) as u8,
            hours: (k % 24) as u8,
            minutes: (k % 60) as u8,
            seconds: ((k * 7) % 60) as u8,
        }
    }
}

fn err_name<E: std::fmt::Debug>(e: &Error<E>) -> String {
    let s = format!("{:?}", e);
    let end = s.find(|c: char| !(c.is_alphanumeric())).unwrap_or(s.len());
    s[..end].to_string()
}
fn ts_str(t: &Timestamp) -> String {
    format!("{}-{}-{}-{}-{}-{}", t.year_since_1970, t.zero_indexed_month, t.zero_indexed_day, t.hours, t.minutes, t.seconds)
}
fn cluster_num(c: &embedded_sdmmc::filesystem::ClusterId) -> u32 {
    // ClusterId's field is crate-private: recover it from the Debug text
    let s = format!("{:?}", c);
    let inner = s.trim_start_matches("ClusterId(").trim_end_matches(')').trim();
    match inner {
        "INVALID" => 0xFFFF_FFF6,
        "BAD" => 0xFFFF_FFF7,
        "EMPTY" => 0,
        "ROOT" => 0xFFFF_FFFC,
        "EOF" => 0xFFFF_FFFF,
        x => u32::from_str_radix(x, 16).unwrap_or(0xFFFF_FFF0),
    }
}
fn mode_of(s: &str) -> Mode {
    match s {
        "RO" => Mode::ReadOnly,
        "RWA" => Mode::ReadWriteAppend,
        "RWT" => Mode::ReadWriteTruncate,
        "RWC" => Mode::ReadWriteCreate,
        "RWCT" => Mode::ReadWriteCreateOrTruncate,
        "RWCA" => Mode::ReadWriteCreateOrAppend,
        _ => panic!("mode"),
    }
}

struct Slots {
    map: HashMap<String, u32>,
    file_slots: Vec<String>,
}
impl Slots {
    fn h(&self, tok: &str) -> u32 {
        if let Some(r) = tok.strip_prefix('#') {
            r.parse().unwrap()
        } else {
            *self.map.get(tok).unwrap_or(&3735928559)
        }
    }
}
// handles are opaque newtypes over a crate-private Handle(u32): build them by transmute-free means
fn raw_volume(h: u32) -> RawVolume { unsafe { std::mem::transmute::<u32, RawVolume>(h) } }
fn raw_dir(h: u32) -> RawDirectory { unsafe { std::mem::transmute::<u32, RawDirectory>(h) } }
fn raw_file(h: u32) -> RawFile { unsafe { std::mem::transmute::<u32, RawFile>(h) } }
fn vol_num(v: RawVolume) -> u32 { unsafe { std::mem::transmute::<RawVolume, u32>(v) } }
fn dir_num(v: RawDirectory) -> u32 { unsafe { std::mem::transmute::<RawDirectory, u32>(v) } }
fn file_num(v: RawFile) -> u32 { unsafe { std::mem::transmute::<RawFile, u32>(v) } }

fn name_of(tok: &str) -> String {
    if tok == "-" { String::new() } else { String::from_utf8(unhex(tok)).unwrap() }
}

fn name11(e: &embedded_sdmmc::DirEntry) -> Vec<u8> {
    // ShortFileName keeps its 11 bytes private; base_name()/extension() stop at the first space,
    // so rebuild from Debug of the raw struct is not possible either. Use the public pieces and
    // the fact that the stored form is fixed-width: read through `csum`-free route: transmute.
    let n: [u8; 11] = unsafe { std::mem::transmute_copy(&e.name) };
    n.to_vec()
}

fn res_of<T, E: std::fmt::Debug>(r: Result<T, Error<E>>, f: impl FnOnce(T) -> String) -> String {
    match r {
        Ok(v) => format!("ok {}", f(v)),
        Err(e) => format!("err {}", err_name(&e)),
    }
}
fn bytes_str(b: &[u8]) -> String {
    format!("bytes {} {}{}", b.len(), hash_bytes(b), if b.len() <= 32 { format!(" {}", hex(b)) } else { String::new() })
}
fn entry_line(e: &embedded_sdmmc::DirEntry) -> String {
    format!(
        "{} {} {} {} {} {} {} {}",
        hex(&name11(e)),
        attr_raw(e),
        cluster_num(&e.cluster),
        e.size,
        ts_str(&e.mtime),
        ts_str(&e.ctime),
        e.entry_block.0,
        e.entry_offset
    )
}
fn attr_raw(e: &embedded_sdmmc::DirEntry) -> u8 {
    let a: u8 = unsafe { std::mem::transmute_copy(&e.attributes) };
    a
}


// ---- internal state, recovered from the derived Debug text of VolumeManager (no hook needed) ----
fn after<'a>(s: &'a str, key: &str) -> Option<&'a str> {
    s.find(key).map(|i| &s[i + key.len()..])
}
fn until<'a>(s: &'a str, delims: &[char]) -> &'a str {
    let end = s.find(|c: char| delims.contains(&c)).unwrap_or(s.len());
    &s[..end]
}
fn hexnum(s: &str) -> Option<u64> {
    u64::from_str_radix(s.trim().trim_start_matches("0x"), 16).ok()
}
fn cluster_txt(s: &str) -> Option<u64> {
    // "ClusterId(ROOT    )" / "ClusterId(0000001f)"
    let inner = until(after(s, "ClusterId(")?, &[')']).trim();
    Some(match inner {
        "INVALID" => 0xFFFF_FFF6,
        "BAD" => 0xFFFF_FFF7,
        "EMPTY" => 0,
        "ROOT" => 0xFFFF_FFFC,
        "EOF" => 0xFFFF_FFFF,
        x => u64::from_str_radix(x, 16).ok()?,
    })
}
fn opt_num(s: &str) -> Option<String> {
    // "None, ..." | "Some(123), ..." | "Some(ClusterId(..)), ..."
    let s = s.trim_start();
    if s.starts_with("None") {
        Some("-".into())
    } else if s.starts_with("Some(ClusterId(") {
        cluster_txt(s).map(|x| x.to_string())
    } else if s.starts_with("Some(BlockIdx(") {
        Some(until(after(s, "Some(BlockIdx(")?, &[')']).to_string())
    } else if s.starts_with("Some(BlockCount(") {
        Some(until(after(s, "Some(BlockCount(")?, &[')']).to_string())
    } else if s.starts_with("Some(") {
        Some(until(after(s, "Some(")?, &[')']).to_string())
    } else {
        None
    }
}
fn ts_txt(s: &str) -> Option<String> {
    // "Timestamp(2001-02-03 04:05:06)"
    let t = until(after(s, "Timestamp(")?, &[')']);
    let p: Vec<&str> = t.split(|c| c == '-' || c == ' ' || c == ':').collect();
    if p.len() != 6 { return None; }
    let y: i64 = p[0].parse().ok()?;
    let mo: i64 = p[1].parse().ok()?;
    let d: i64 = p[2].parse().ok()?;
    Some(format!("{}-{}-{}-{}-{}-{}", y - 1970, mo - 1, d - 1, p[3].parse::<i64>().ok()?, p[4].parse::<i64>().ok()?, p[5].parse::<i64>().ok()?))
}
fn int_line(dbg: &str) -> Option<String> {
    let next_id = until(after(dbg, "next_id: ")?, &[' ', '}']).to_string();
    let tag = opt_num(after(dbg, "block_idx: ")?)?;
    // contents of the one cached block: 16 lines "<64 hex digits> <ascii>" after "Block:"
    let mut cached = Vec::with_capacity(512);
    for line in after(dbg, "Block:\n")?.lines().take(16) {
        let h = line.split(' ').next()?;
        if h.len() != 64 { return None; }
        cached.extend(unhex(h));
    }
    let cache_hash = hash_bytes(&cached);
    let vols_txt = after(dbg, "open_volumes: [")?;
    let dirs_pos = vols_txt.find("open_dirs: [")?;
    let (vols_txt, rest) = vols_txt.split_at(dirs_pos);
    let files_pos = rest.find("open_files: [")?;
    let (dirs_txt, files_txt) = rest.split_at(files_pos);
    let mut vols = Vec::new();
    for chunk in vols_txt.split("VolumeInfo {").skip(1) {
        let id = hexnum(until(after(chunk, "raw_volume: RawVolume(")?, &[')']))?;
        let idx = until(after(chunk, "idx: VolumeIdx(")?, &[')']);
        let free = opt_num(after(chunk, "free_clusters_count: ")?)?;
        let next = opt_num(after(chunk, "next_free_cluster: ")?)?;
        // the geometry the mount code computed (ties parse_volume / Bpb to the mount model in every script)
        let lba = until(after(chunk, "lba_start: BlockIdx(")?, &[')']);
        let nblocks = until(after(chunk, "num_blocks: BlockCount(")?, &[')']);
        let spc = until(after(chunk, "blocks_per_cluster: ")?, &[',', ' ']);
        let first_data = until(after(chunk, "first_data_block: BlockCount(")?, &[')']);
        let fat_start = until(after(chunk, "fat_start: BlockCount(")?, &[')']);
        let second = opt_num(after(chunk, "second_fat_start: ")?)?;
        let cc = until(after(chunk, "cluster_count: ")?, &[',', ' ']);
        let kind = if let Some(f16) = after(chunk, "Fat16(Fat16Info {") {
            format!("16:{}:{}", until(after(f16, "first_root_dir_block: BlockCount(")?, &[')']), until(after(f16, "root_entries_count: ")?, &[',', ' ', '}']))
        } else {
            let f32i = after(chunk, "Fat32(Fat32Info {")?;
            format!("32:{}:{}", cluster_txt(after(f32i, "first_root_dir_cluster: ")?)?, until(after(f32i, "info_location: BlockIdx(")?, &[')']))
        };
        vols.push(format!("{}:{}:{}:{}:{}:{}:{}:{}:{}:{}:{}:{}", id, idx, free, next, lba, nblocks, spc, first_data, fat_start, second, cc, kind));
    }
    let mut dirs = Vec::new();
    for chunk in dirs_txt.split("DirectoryInfo {").skip(1) {
        let id = hexnum(until(after(chunk, "raw_directory: RawDirectory(")?, &[')']))?;
        let vol = hexnum(until(after(chunk, "raw_volume: RawVolume(")?, &[')']))?;
        let cl = cluster_txt(after(chunk, "cluster: ")?)?;
        dirs.push(format!("{}:{}:{}", id, vol, cl));
    }
    let mut files = Vec::new();
    for chunk in files_txt.split("FileInfo {").skip(1) {
        let id = hexnum(until(after(chunk, "raw_file: RawFile(")?, &[')']))?;
        let vol = hexnum(until(after(chunk, "raw_volume: RawVolume(")?, &[')']))?;
        let cc = after(chunk, "current_cluster: (")?;
        let cur_off = until(cc, &[',']).to_string();
        let cur_cl = cluster_txt(cc)?;
        let off = until(after(chunk, "current_offset: ")?, &[',']).to_string();
        let mode = match until(after(chunk, "mode: ")?, &[',']) {
            "ReadOnly" => "RO", "ReadWriteAppend" => "RWA", "ReadWriteTruncate" => "RWT", "ReadWriteCreate" => "RWC",
            "ReadWriteCreateOrTruncate" => "RWCT", "ReadWriteCreateOrAppend" => "RWCA", _ => return None,
        };
        let entry = after(chunk, "mtime: ")?;
        let mtime = ts_txt(entry)?;
        let ecl = cluster_txt(after(entry, "attributes: ")?)?;
        let size = until(after(entry, "size: ")?, &[',']).to_string();
        let eblk = until(after(entry, "entry_block: BlockIdx(")?, &[')']).to_string();
        let eoff = until(after(entry, "entry_offset: ")?, &[' ', '}', ',']).to_string();
        let dirty = if until(after(entry, "dirty: ")?, &[' ', '}', ',']) == "true" { 1 } else { 0 };
        files.push(format!("{}:{}:{}:{}:{}:{}:{}:{}:{}:{}:{}:{}", id, vol, cur_off, cur_cl, off, mode, size, ecl, dirty, eblk, eoff, mtime));
    }
    Some(format!("id={} vols=[{}] dirs=[{}] files=[{}] tag={} cache={}", next_id, vols.join(";"), dirs.join(";"), files.join(";"), tag, cache_hash))
}

type VM<'a, const D: usize, const F: usize, const V: usize> = VolumeManager<&'a Dev, &'a Clock, D, F, V>;

/// executes one op; returns (result text, callback lines, handle if any)
fn exec<'a, const D: usize, const F: usize, const V: usize>(
    vm: &VM<'a, D, F, V>,
    slots: &Slots,
    t: &[&str],
) -> (String, Vec<String>, Option<u32>) {
    let mut cbs = Vec::new();
    let mut handle = None;
    let res = match t {
        ["openvol", i] if raii() => res_of(vm.open_volume(VolumeIdx(i.parse().unwrap())), |v| {
            let v = v.to_raw_volume();
            handle = Some(vol_num(v));
            format!("handle {}", vol_num(v))
        }),
        ["openvol", i] => res_of(vm.open_raw_volume(VolumeIdx(i.parse().unwrap())), |v| {
            handle = Some(vol_num(v));
            format!("handle {}", vol_num(v))
        }),
        ["closevol", v] if raii() => res_of(raw_volume(slots.h(v)).to_volume(vm).close(), |_| "unit".into()),
        ["closevol", v] => res_of(vm.close_volume(raw_volume(slots.h(v))), |_| "unit".into()),
        ["dropvol", v] => {
            drop(raw_volume(slots.h(v)).to_volume(vm));
            "ok unit".into()
        }
        ["openroot", v] if raii() => {
            let vol = ManuallyDrop::new(raw_volume(slots.h(v)).to_volume(vm));
            res_of(vol.open_root_dir(), |d| {
                let d = d.to_raw_directory();
                handle = Some(dir_num(d));
                format!("handle {}", dir_num(d))
            })
        }
        ["openroot", v] => res_of(vm.open_root_dir(raw_volume(slots.h(v))), |d| {
            handle = Some(dir_num(d));
            format!("handle {}", dir_num(d))
        }),
        ["opendir", d, nm] if raii() => {
            let dir = ManuallyDrop::new(raw_dir(slots.h(d)).to_directory(vm));
            res_of(dir.open_dir(name_of(nm).as_str()), |d| {
                let d = d.to_raw_directory();
                handle = Some(dir_num(d));
                format!("handle {}", dir_num(d))
            })
        }
        ["opendir", d, nm] => res_of(vm.open_dir(raw_dir(slots.h(d)), name_of(nm).as_str()), |d| {
            handle = Some(dir_num(d));
            format!("handle {}", dir_num(d))
        }),
        ["chdir", d, nm] => {
            // Directory::change_dir: the wrapper holds the new handle afterwards (the old one on failure)
            let mut dir = ManuallyDrop::new(raw_dir(slots.h(d)).to_directory(vm));
            let r = dir.change_dir(name_of(nm).as_str());
            let now = dir_num(ManuallyDrop::into_inner(dir).to_raw_directory());
            res_of(r, |_| {
                handle = Some(now);
                format!("handle {}", now)
            })
        }
        ["closedir", d] if raii() => res_of(raw_dir(slots.h(d)).to_directory(vm).close(), |_| "unit".into()),
        ["closedir", d] => res_of(vm.close_dir(raw_dir(slots.h(d))), |_| "unit".into()),
        ["dropdir", d] => {
            drop(raw_dir(slots.h(d)).to_directory(vm));
            "ok unit".into()
        }
        ["find", d, nm] if raii() => {
            let dir = ManuallyDrop::new(raw_dir(slots.h(d)).to_directory(vm));
            res_of(dir.find_directory_entry(name_of(nm).as_str()), |e| format!("entry {}", entry_line(&e)))
        }
        ["find", d, nm] => res_of(vm.find_directory_entry(raw_dir(slots.h(d)), name_of(nm).as_str()), |e| format!("entry {}", entry_line(&e))),
        ["iter", d, rest @ ..] => {
            let mut inner: Option<String> = None;
            let mut n = 0usize;
            let f = |e: &embedded_sdmmc::DirEntry| {
                cbs.push(entry_line(e));
                if n == 0 && rest.len() > 1 {
                    let (r, _, _) = exec(vm, slots, &rest[1..]);
                    inner = Some(r);
                }
                n += 1;
            };
            let r = if raii() {
                let dir = ManuallyDrop::new(raw_dir(slots.h(d)).to_directory(vm));
                dir.iterate_dir(f)
            } else {
                vm.iterate_dir(raw_dir(slots.h(d)), f)
            };
            res_of(r, |_| format!("iter {}{}", n, match &inner { Some(s) => format!(" inner {}", s), None => String::new() }))
        }
        ["iterlfn", d, nbytes] => {
            let mut storage = vec![0u8; nbytes.parse().unwrap()];
            let mut lfn = LfnBuffer::new(&mut storage);
            let mut n = 0usize;
            let f = |e: &embedded_sdmmc::DirEntry, name: Option<&str>| {
                cbs.push(format!("{} {}", entry_line(e), match name { Some(s) => format!("lfn {}", hex(s.as_bytes())), None => "nolfn".into() }));
                n += 1;
            };
            let r = if raii() {
                let dir = ManuallyDrop::new(raw_dir(slots.h(d)).to_directory(vm));
                dir.iterate_dir_lfn(&mut lfn, f)
            } else {
                vm.iterate_dir_lfn(raw_dir(slots.h(d)), &mut lfn, f)
            };
            res_of(r, |_| format!("iterlfn {}", n))
        }
        ["open", d, nm, m] if raii() => {
            let dir = ManuallyDrop::new(raw_dir(slots.h(d)).to_directory(vm));
            res_of(dir.open_file_in_dir(name_of(nm).as_str(), mode_of(m)), |f| {
                let f = f.to_raw_file();
                handle = Some(file_num(f));
                format!("handle {}", file_num(f))
            })
        }
        ["open", d, nm, m] => res_of(vm.open_file_in_dir(raw_dir(slots.h(d)), name_of(nm).as_str(), mode_of(m)), |f| {
            handle = Some(file_num(f));
            format!("handle {}", file_num(f))
        }),
        ["close", f] if raii() => res_of(raw_file(slots.h(f)).to_file(vm).close(), |_| "unit".into()),
        ["close", f] => res_of(vm.close_file(raw_file(slots.h(f))), |_| "unit".into()),
        ["dropfile", f] => {
            drop(raw_file(slots.h(f)).to_file(vm));
            "ok unit".into()
        }
        ["flush", f] if raii() => {
            let file = ManuallyDrop::new(raw_file(slots.h(f)).to_file(vm));
            res_of(file.flush(), |_| "unit".into())
        }
        ["flush", f] => res_of(vm.flush_file(raw_file(slots.h(f))), |_| "unit".into()),
        ["read", f, n] => {
            let mut buf = vec![0u8; n.parse().unwrap()];
            let r = if raii() {
                let file = ManuallyDrop::new(raw_file(slots.h(f)).to_file(vm));
                file.read(&mut buf)
            } else {
                vm.read(raw_file(slots.h(f)), &mut buf)
            };
            res_of(r, |k| bytes_str(&buf[..k]))
        }
        ["write", f, len, seed] => {
            let data = pattern(len.parse().unwrap(), seed.parse().unwrap());
            let r = if raii() {
                let file = ManuallyDrop::new(raw_file(slots.h(f)).to_file(vm));
                file.write(&data)
            } else {
                vm.write(raw_file(slots.h(f)), &data)
            };
            res_of(r, |_| "unit".into())
        }
        ["seekstart", f, x] if raii() => {
            let file = ManuallyDrop::new(raw_file(slots.h(f)).to_file(vm));
            res_of(file.seek_from_start(x.parse().unwrap()), |_| "unit".into())
        }
        ["seekcur", f, x] if raii() => {
            let file = ManuallyDrop::new(raw_file(slots.h(f)).to_file(vm));
            res_of(file.seek_from_current(x.parse().unwrap()), |_| "unit".into())
        }
        ["seekend", f, x] if raii() => {
            let file = ManuallyDrop::new(raw_file(slots.h(f)).to_file(vm));
            res_of(file.seek_from_end(x.parse().unwrap()), |_| "unit".into())
        }
        ["seekstart", f, x] => res_of(vm.file_seek_from_start(raw_file(slots.h(f)), x.parse().unwrap()), |_| "unit".into()),
        ["seekcur", f, x] => res_of(vm.file_seek_from_current(raw_file(slots.h(f)), x.parse().unwrap()), |_| "unit".into()),
        ["seekend", f, x] => res_of(vm.file_seek_from_end(raw_file(slots.h(f)), x.parse().unwrap()), |_| "unit".into()),
        ["len", f] => res_of(vm.file_length(raw_file(slots.h(f))), |x| format!("num {}", x)),
        ["off", f] => res_of(vm.file_offset(raw_file(slots.h(f))), |x| format!("num {}", x)),
        ["eof", f] => res_of(vm.file_eof(raw_file(slots.h(f))), |x| format!("bool {}", x as u8)),
        // File::length / offset / is_eof: expect("Corrupt file ID") - a panic is a result here
        ["wlen", f] => {
            let file = ManuallyDrop::new(raw_file(slots.h(f)).to_file(vm));
            format!("ok num {}", file.length())
        }
        ["woff", f] => {
            let file = ManuallyDrop::new(raw_file(slots.h(f)).to_file(vm));
            format!("ok num {}", file.offset())
        }
        ["weof", f] => {
            let file = ManuallyDrop::new(raw_file(slots.h(f)).to_file(vm));
            format!("ok bool {}", file.is_eof() as u8)
        }
        ["delete", d, nm] if raii() => {
            let dir = ManuallyDrop::new(raw_dir(slots.h(d)).to_directory(vm));
            res_of(dir.delete_file_in_dir(name_of(nm).as_str()), |_| "unit".into())
        }
        ["mkdir", d, nm] if raii() => {
            let dir = ManuallyDrop::new(raw_dir(slots.h(d)).to_directory(vm));
            res_of(dir.make_dir_in_dir(name_of(nm).as_str()), |_| "unit".into())
        }
        ["delete", d, nm] => res_of(vm.delete_file_in_dir(raw_dir(slots.h(d)), name_of(nm).as_str()), |_| "unit".into()),
        ["mkdir", d, nm] => res_of(vm.make_dir_in_dir(raw_dir(slots.h(d)), name_of(nm).as_str()), |_| "unit".into()),
        ["label", v] => res_of(vm.get_root_volume_label(raw_volume(slots.h(v))), |l| match l {
            None => "label none".into(),
            Some(l) => {
                let n: [u8; 11] = unsafe { std::mem::transmute_copy(&l) };
                format!("label {}", hex(&n))
            }
        }),
        ["hasopen"] => format!("ok bool {}", vm.has_open_handles() as u8),
        ["ioseek", f, w, x] => {
            use embedded_io::{Seek, SeekFrom};
            let pos = match *w {
                "start" => SeekFrom::Start(if *x == "u64max" { u64::MAX } else { x.parse().unwrap() }),
                "end" => SeekFrom::End(if *x == "i64min" { i64::MIN } else { x.parse().unwrap() }),
                _ => SeekFrom::Current(if *x == "i64min" { i64::MIN } else { x.parse().unwrap() }),
            };
            let mut file = raw_file(slots.h(f)).to_file(vm);
            let r = file.seek(pos);
            let _ = file.to_raw_file();
            res_of(r, |x| format!("num {}", x))
        }
        ["ioread", f, n] => {
            use embedded_io::Read;
            let mut buf = vec![0u8; n.parse().unwrap()];
            let mut file = raw_file(slots.h(f)).to_file(vm);
            let r = Read::read(&mut file, &mut buf);
            let _ = file.to_raw_file();
            res_of(r, |k| bytes_str(&buf[..k]))
        }
        ["iowrite", f, len, seed] => {
            use embedded_io::Write;
            let mut file = raw_file(slots.h(f)).to_file(vm);
            let r = Write::write(&mut file, &pattern(len.parse().unwrap(), seed.parse().unwrap()));
            let _ = file.to_raw_file();
            res_of(r, |k| format!("num {}", k))
        }
        _ => panic!("bad op {:?}", t),
    };
    (res, cbs, handle)
}

struct Script {
    cfg: (usize, usize, usize, u32),
    faults: Vec<u64>,
    img: Option<String>,
    ops: Vec<String>,
}

fn run<'a, const D: usize, const F: usize, const V: usize>(dev: &'a Dev, clock: &'a Clock, sc: &Script, out: &mut impl IoWrite) {
    let mut vm: VM<'a, D, F, V> = VolumeManager::new_with_limits(dev, clock, sc.cfg.3);
    let mut slots = Slots { map: HashMap::new(), file_slots: Vec::new() };
    for line in &sc.ops {
        let toks: Vec<&str> = line.split_whitespace().collect();
        let n: u64 = toks[0].parse().unwrap();
        let mut optoks = &toks[1..];
        let mut bind = None;
        if optoks.len() >= 2 && optoks[optoks.len() - 2] == "->" {
            bind = Some(optoks[optoks.len() - 1].to_string());
            optoks = &optoks[..optoks.len() - 2];
        }
        dev.log.borrow_mut().clear();
        dev.cur_op.set(n);
        if optoks[0] == "remount" {
            drop(vm);
            vm = VolumeManager::new_with_limits(dev, clock, optoks[1].parse().unwrap());
            writeln!(out, "RES {} ok unit", n).unwrap();
        } else {
            let r = catch_unwind(AssertUnwindSafe(|| exec(&vm, &slots, optoks)));
            match r {
                Ok((res, cbs, handle)) => {
                    // callbacks of a call that ends in an error are not part of the canonical trace
                    let cbs = if res.starts_with("ok") { cbs } else { Vec::new() };
                    for c in cbs {
                        writeln!(out, "CB {} {}", n, c).unwrap();
                    }
                    writeln!(out, "RES {} {}", n, res).unwrap();
                    if let (Some(sl), Some(h)) = (bind, handle) {
                        slots.map.insert(sl.clone(), h);
                        if optoks[0] == "open" && !slots.file_slots.contains(&sl) {
                            slots.file_slots.push(sl);
                        }
                    }
                }
                Err(_) => {
                    writeln!(out, "RES {} panic", n).unwrap();
                    for c in dev.log.borrow().iter() {
                        print_call(out, n, c);
                    }
                    std::mem::forget(vm);
                    return;
                }
            }
        }
        for c in dev.log.borrow().iter() {
            print_call(out, n, c);
        }
        for sl in &slots.file_slots {
            let h = raw_file(slots.h(sl));
            let a = vm.file_length(h).map(|x| x.to_string()).unwrap_or("err".into());
            let b = vm.file_offset(h).map(|x| x.to_string()).unwrap_or("err".into());
            let c = vm.file_eof(h).map(|x| (x as u8).to_string()).unwrap_or("err".into());
            writeln!(out, "ST {} {} {} {} {}", n, sl, a, b, c).unwrap();
        }
        match int_line(&format!("{:?}", vm)) {
            Some(l) => writeln!(out, "INT {} {} clk={}", n, l, clock.k.get()).unwrap(),
            None => writeln!(out, "INT {} unparsed", n).unwrap(),
        }
    }
}
fn print_call(out: &mut impl IoWrite, n: u64, c: &Call) {
    match c {
        Call::R(i) => writeln!(out, "DEV {} R {}", n, i),
        Call::W(i, h) => writeln!(out, "DEV {} W {} {}", n, i, h),
        Call::RF(i) => writeln!(out, "DEV {} RF {}", n, i),
        Call::WF(i) => writeln!(out, "DEV {} WF {}", n, i),
    }
    .unwrap();
}

fn main() {
    let args: Vec<String> = std::env::args().collect();
    let path = &args[1];
    let mut writes_path = None;
    let mut final_path = None;
    let mut i = 2;
    while i < args.len() {
        if args[i] == "--writes" { writes_path = Some(args[i + 1].clone()); i += 2; }
        else if args[i] == "--final" { final_path = Some(args[i + 1].clone()); i += 2; }
        else if args[i] == "--raii" { RAII.store(true, Ordering::Relaxed); i += 1; }
        else { i += 1; }
    }
    std::panic::set_hook(Box::new(|_| {}));
    let f = std::fs::File::open(path).unwrap();
    let mut sc = Script { cfg: (1, 4, 4, 5000), faults: vec![], img: None, ops: vec![] };
    for line in std::io::BufReader::new(f).lines() {
        let line = line.unwrap();
        let t: Vec<&str> = line.split_whitespace().collect();
        match t.as_slice() {
            [] => {}
            ["#", "RAII"] => RAII.store(true, Ordering::Relaxed),
            ["#", ..] => {}
            ["CFG", a, b, c, d] => sc.cfg = (a.parse().unwrap(), b.parse().unwrap(), c.parse().unwrap(), d.parse().unwrap()),
            ["FAULTS", rest @ ..] => sc.faults = rest.iter().map(|x| x.parse().unwrap()).collect(),
            ["IMG", p] => sc.img = Some(p.to_string()),
            _ => sc.ops.push(line.clone()),
        }
    }
    let mut blocks = HashMap::new();
    if let Some(p) = &sc.img {
        for line in std::io::BufReader::new(std::fs::File::open(p).unwrap()).lines() {
            let line = line.unwrap();
            let t: Vec<&str> = line.split_whitespace().collect();
            if t.len() == 2 {
                let mut b = [0u8; 512];
                b.copy_from_slice(&unhex(t[1]));
                blocks.insert(t[0].parse::<u32>().unwrap(), b);
            }
        }
    }
    let dev = Dev {
        blocks: RefCell::new(blocks),
        ncalls: Cell::new(0),
        faults: sc.faults.iter().cloned().collect(),
        log: RefCell::new(vec![]),
        writes: RefCell::new(vec![]),
        keep_writes: writes_path.is_some(),
        cur_op: Cell::new(0),
    };
    let clock = Clock { k: Cell::new(0) };
    let stdout = std::io::stdout();
    let mut out = std::io::BufWriter::new(stdout.lock());
    macro_rules! dispatch {
        ($(($v:literal, $d:literal, $f:literal)),*) => {
            match (sc.cfg.0, sc.cfg.1, sc.cfg.2) {
                $( ($v, $d, $f) => run::<$d, $f, $v>(&dev, &clock, &sc, &mut out), )*
                other => panic!("limit configuration {:?} not instantiated", other),
            }
        };
    }
    dispatch!((1, 4, 4), (1, 1, 1), (2, 2, 2), (2, 4, 4), (3, 8, 8), (8, 1, 3), (4, 3, 1), (2, 5, 2), (1, 2, 8), (1, 8, 2), (4, 4, 4), (1, 3, 5), (5, 6, 7), (1, 7, 6));
    // final image digest
    let b = dev.blocks.borrow();
    let mut items: Vec<(u32, &[u8; 512])> = b.iter().filter(|(_, v)| v.iter().any(|x| *x != 0)).map(|(k, v)| (*k, v)).collect();
    items.sort();
    let mut h: u64 = 0;
    for (i, blk) in &items {
        h = (h * 1000003 + (*i as u64) * 31 + hash_bytes(&blk[..]) + 1) % PRIME;
    }
    writeln!(out, "IMG {} {}", items.len(), h).unwrap();
    if let Some(p) = writes_path {
        let mut f = std::io::BufWriter::new(std::fs::File::create(p).unwrap());
        for (n, idx, blk) in dev.writes.borrow().iter() {
            writeln!(f, "{} {} {}", n, idx, hex(blk)).unwrap();
        }
    }
    if let Some(p) = final_path {
        let mut f = std::io::BufWriter::new(std::fs::File::create(p).unwrap());
        for (idx, blk) in &items {
            writeln!(f, "{} {}", idx, hex(&blk[..])).unwrap();
        }
    }
}
