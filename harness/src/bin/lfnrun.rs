//! implementation-side runner for C17: same commands, same canonical lines as ocaml/lfn/driver.ml
//!
//!  P <n> <tok>...   LfnBuffer over n bytes; tok = 52 hex digits (13 units, pushed) or `c` (clear);
//!                   prints as_str after every call:  R=<hex>/<hex>/...   (`panic` ends the list)
//!  L <n> <frag>...  String::from_utf16_lossy of the fragments (given in push order) joined in name
//!                   order - a cross-check of the Coq spec, not the oracle
//!  D <n> <slot>...  root directory of a crafted FAT16 volume filled with the 32-byte slots, listed
//!                   with VolumeManager::iterate_dir_lfn and an n-byte LfnBuffer
//!  F <n> <slot>...  the same on a crafted FAT32 volume (root directory = cluster chain from cluster 2)
//!  C <slot>         OnDiskDirEntry::lfn_contents
//!  U <units>        core::char::decode_utf16 + char::encode_utf8
//!  X s c stride     digest of encode_utf8 over scalar values
use embedded_sdmmc::fat::OnDiskDirEntry;
use embedded_sdmmc::{Block, BlockCount, BlockDevice, BlockIdx, LfnBuffer, TimeSource, Timestamp, VolumeIdx, VolumeManager};
use std::io::{self, BufRead, Write};
use std::panic::{catch_unwind, AssertUnwindSafe};

const PRIME: u64 = 2147483647;
fn step(h: u64, r: u64) -> u64 {
    (h * 1000003 + r + 1) % PRIME
}
fn unhex(s: &str) -> Vec<u8> {
    (0..s.len() / 2).map(|i| u8::from_str_radix(&s[2 * i..2 * i + 2], 16).unwrap()).collect()
}
fn unhex16(s: &str) -> Vec<u16> {
    (0..s.len() / 4).map(|i| u16::from_str_radix(&s[4 * i..4 * i + 4], 16).unwrap()).collect()
}
fn hex(b: &[u8]) -> String {
    b.iter().map(|x| format!("{:02x}", x)).collect()
}

// ---- crafted FAT16 volume: MBR, boot sector at LBA 1, one FAT of 16 blocks, root directory of
// 512 entries (32 blocks) at absolute block 18, 4085 clusters of one block
const LBA_START: u32 = 1;
const FAT_BLOCKS: u32 = 16;
const ROOT_BLOCKS: u32 = 32;
const ROOT_START: u32 = LBA_START + 1 + FAT_BLOCKS;
const CLUSTERS: u32 = 4085;
const TOTAL: u32 = 1 + FAT_BLOCKS + ROOT_BLOCKS + CLUSTERS;

struct Ram {
    blocks: Vec<[u8; 512]>, // the first blocks of the device; everything beyond reads as zero
    total: u32,
}
impl BlockDevice for Ram {
    type Error = ();
    fn read(&self, blocks: &mut [Block], start: BlockIdx) -> Result<(), ()> {
        for (i, b) in blocks.iter_mut().enumerate() {
            let idx = start.0 as usize + i;
            if idx < self.blocks.len() {
                b.contents.copy_from_slice(&self.blocks[idx]);
            } else {
                b.contents.fill(0);
            }
        }
        Ok(())
    }
    fn write(&self, _blocks: &[Block], _start: BlockIdx) -> Result<(), ()> {
        Ok(())
    }
    fn num_blocks(&self) -> Result<BlockCount, ()> {
        Ok(BlockCount(self.total))
    }
}
struct Clock;
impl TimeSource for Clock {
    fn get_timestamp(&self) -> Timestamp {
        Timestamp { year_since_1970: 30, zero_indexed_month: 0, zero_indexed_day: 0, hours: 0, minutes: 0, seconds: 0 }
    }
}

fn image(slots: &[Vec<u8>]) -> Ram {
    let mut blocks = vec![[0u8; 512]; (ROOT_START + ROOT_BLOCKS) as usize];
    {
        let mbr = &mut blocks[0];
        mbr[446 + 4] = 0x06;
        mbr[446 + 8..446 + 12].copy_from_slice(&LBA_START.to_le_bytes());
        mbr[446 + 12..446 + 16].copy_from_slice(&TOTAL.to_le_bytes());
        mbr[510] = 0x55;
        mbr[511] = 0xAA;
    }
    {
        let b = &mut blocks[LBA_START as usize];
        b[0] = 0xEB;
        b[1] = 0x3C;
        b[2] = 0x90;
        b[3..11].copy_from_slice(b"VERIF   ");
        b[11..13].copy_from_slice(&512u16.to_le_bytes());
        b[13] = 1;
        b[14..16].copy_from_slice(&1u16.to_le_bytes());
        b[16] = 1;
        b[17..19].copy_from_slice(&512u16.to_le_bytes());
        b[19..21].copy_from_slice(&(TOTAL as u16).to_le_bytes());
        b[21] = 0xF8;
        b[22..24].copy_from_slice(&(FAT_BLOCKS as u16).to_le_bytes());
        b[510] = 0x55;
        b[511] = 0xAA;
    }
    for (i, s) in slots.iter().enumerate() {
        let blk = ROOT_START as usize + i / 16;
        let off = (i % 16) * 32;
        blocks[blk][off..off + 32].copy_from_slice(&s[..32]);
    }
    Ram { blocks, total: LBA_START + TOTAL }
}

// ---- crafted FAT32 volume: MBR, boot sector at LBA 1, FS info at LBA 2, one FAT of 512 blocks,
// 65525 clusters of one block; the root directory is the chain 2 -> 3 -> ... (16 slots per cluster)
const F32_RESERVED: u32 = 2;
const F32_FAT_BLOCKS: u32 = 512;
const F32_CLUSTERS: u32 = 65525;
const F32_DATA_START: u32 = LBA_START + F32_RESERVED + F32_FAT_BLOCKS;
const F32_TOTAL: u32 = F32_RESERVED + F32_FAT_BLOCKS + F32_CLUSTERS;

fn image32(slots: &[Vec<u8>]) -> Ram {
    let nclus = std::cmp::max(1, (slots.len() + 15) / 16) as u32;
    let mut blocks = vec![[0u8; 512]; (F32_DATA_START + nclus) as usize];
    {
        let mbr = &mut blocks[0];
        mbr[446 + 4] = 0x0C;
        mbr[446 + 8..446 + 12].copy_from_slice(&LBA_START.to_le_bytes());
        mbr[446 + 12..446 + 16].copy_from_slice(&F32_TOTAL.to_le_bytes());
        mbr[510] = 0x55;
        mbr[511] = 0xAA;
    }
    {
        let b = &mut blocks[LBA_START as usize];
        b[0] = 0xEB;
        b[1] = 0x58;
        b[2] = 0x90;
        b[3..11].copy_from_slice(b"VERIF   ");
        b[11..13].copy_from_slice(&512u16.to_le_bytes());
        b[13] = 1;
        b[14..16].copy_from_slice(&(F32_RESERVED as u16).to_le_bytes());
        b[16] = 1;
        b[21] = 0xF8;
        b[32..36].copy_from_slice(&F32_TOTAL.to_le_bytes());
        b[36..40].copy_from_slice(&F32_FAT_BLOCKS.to_le_bytes());
        b[44..48].copy_from_slice(&2u32.to_le_bytes());
        b[48..50].copy_from_slice(&1u16.to_le_bytes());
        b[510] = 0x55;
        b[511] = 0xAA;
    }
    {
        let b = &mut blocks[(LBA_START + 1) as usize];
        b[0..4].copy_from_slice(&0x4161_5252u32.to_le_bytes());
        b[484..488].copy_from_slice(&0x6141_7272u32.to_le_bytes());
        b[488..492].copy_from_slice(&0xFFFF_FFFFu32.to_le_bytes());
        b[492..496].copy_from_slice(&0xFFFF_FFFFu32.to_le_bytes());
        b[508..512].copy_from_slice(&0xAA55_0000u32.to_le_bytes());
    }
    {
        // FAT: entries 0, 1 reserved; the root chain 2 -> 3 -> ... -> end of chain
        let fat = (LBA_START + F32_RESERVED) as usize;
        let mut put = |c: u32, v: u32| {
            let off = (c * 4) as usize;
            blocks[fat + off / 512][off % 512..off % 512 + 4].copy_from_slice(&v.to_le_bytes());
        };
        put(0, 0x0FFF_FFF8);
        put(1, 0x0FFF_FFFF);
        for c in 0..nclus {
            put(2 + c, if c + 1 == nclus { 0x0FFF_FFFF } else { 3 + c });
        }
    }
    for (i, s) in slots.iter().enumerate() {
        let blk = F32_DATA_START as usize + i / 16;
        let off = (i % 16) * 32;
        blocks[blk][off..off + 32].copy_from_slice(&s[..32]);
    }
    Ram { blocks, total: LBA_START + F32_TOTAL }
}

fn list_dir(n: usize, slots: &[Vec<u8>], fat32: bool) -> Result<Vec<String>, String> {
    let first = if fat32 { F32_DATA_START } else { ROOT_START };
    let img = if fat32 { image32(slots) } else { image(slots) };
    let mgr: VolumeManager<Ram, Clock, 4, 4, 1> = VolumeManager::new_with_limits(img, Clock, 100);
    let vol = mgr.open_raw_volume(VolumeIdx(0)).map_err(|e| format!("{:?}", e))?;
    let dir = mgr.open_root_dir(vol).map_err(|e| format!("{:?}", e))?;
    let mut storage = vec![0u8; n];
    let mut lfn = LfnBuffer::new(&mut storage);
    let mut lines = Vec::new();
    mgr.iterate_dir_lfn(dir, &mut lfn, |de, name| {
        let idx = (de.entry_block.0 - first) as usize * 16 + de.entry_offset as usize / 32;
        let raw = if idx < slots.len() { hex(&slots[idx][0..11]) } else { format!("?{}", idx) };
        match name {
            Some(s) => lines.push(format!("E {} {} lfn={}", raw, de.name.csum(), hex(s.as_bytes()))),
            None => lines.push(format!("E {} {} nolfn", raw, de.name.csum())),
        }
    })
    .map_err(|e| format!("{:?}", e))?;
    Ok(lines)
}

fn main() {
    std::panic::set_hook(Box::new(|_| {}));
    let stdin = io::stdin();
    let out = io::stdout();
    let mut out = io::BufWriter::new(out.lock());
    for line in stdin.lock().lines() {
        let line = line.unwrap();
        let p: Vec<&str> = line.trim().split(' ').collect();
        match p.as_slice() {
            ["P", n, toks @ ..] => {
                let n: usize = n.parse().unwrap();
                let toks: Vec<String> = toks.iter().map(|s| s.to_string()).collect();
                let mut outs: Vec<String> = Vec::new();
                let r = catch_unwind(AssertUnwindSafe(|| {
                    let mut storage = vec![0u8; n];
                    let mut buf = LfnBuffer::new(&mut storage);
                    for t in toks.iter() {
                        if t == "c" {
                            buf.clear();
                        } else {
                            let u = unhex16(t);
                            let mut a = [0u16; 13];
                            a.copy_from_slice(&u[..13]);
                            buf.push(&a);
                        }
                        outs.push(hex(buf.as_str().as_bytes()));
                    }
                }));
                if r.is_err() {
                    outs.push("panic".to_string());
                }
                writeln!(out, "R={}", outs.join("/")).unwrap();
            }
            ["L", _n, toks @ ..] => {
                let mut units: Vec<u16> = Vec::new();
                for t in toks.iter().rev() {
                    let u = unhex16(t);
                    let k = u.iter().position(|&x| x == 0).unwrap_or(u.len());
                    units.extend_from_slice(&u[..k]);
                }
                writeln!(out, "L={}", hex(String::from_utf16_lossy(&units).as_bytes())).unwrap();
            }
            [cmd @ ("D" | "F"), n, toks @ ..] => {
                let fat32 = *cmd == "F";
                let n: usize = n.parse().unwrap();
                let slots: Vec<Vec<u8>> = toks.iter().map(|t| unhex(t)).collect();
                match catch_unwind(AssertUnwindSafe(|| list_dir(n, &slots, fat32))) {
                    Ok(Ok(lines)) => {
                        for l in lines {
                            writeln!(out, "{}", l).unwrap();
                        }
                        writeln!(out, "END ok").unwrap();
                    }
                    Ok(Err(e)) => writeln!(out, "END {}", e).unwrap(),
                    Err(_) => writeln!(out, "END panic").unwrap(),
                }
            }
            ["C", h] => {
                let b = unhex(h);
                match OnDiskDirEntry::new(&b).lfn_contents() {
                    None => writeln!(out, "C none").unwrap(),
                    Some((start, seq, cs, units)) => {
                        let u: String = units.iter().map(|x| format!("{:04x}", x)).collect();
                        writeln!(out, "C {} {} {} {}", if start { 1 } else { 0 }, seq, cs, u).unwrap()
                    }
                }
            }
            ["U"] => writeln!(out, "U=").unwrap(),
            ["U", h] => {
                let u = unhex16(h);
                let items: Vec<String> = char::decode_utf16(u.iter().cloned())
                    .map(|r| match r {
                        Ok(c) => {
                            let mut b = [0u8; 4];
                            format!("o{:x}:{}", c as u32, hex(c.encode_utf8(&mut b).as_bytes()))
                        }
                        Err(e) => format!("e{:x}", e.unpaired_surrogate()),
                    })
                    .collect();
                writeln!(out, "U={}", items.join(",")).unwrap();
            }
            ["X", start, count, stride] => {
                let (start, count, stride): (u64, u64, u64) = (start.parse().unwrap(), count.parse().unwrap(), stride.parse().unwrap());
                let mut h = 0u64;
                for t in 0..count {
                    let c = start + t * stride;
                    if let Some(ch) = char::from_u32(c as u32) {
                        if c < 0x110000 {
                            let mut b = [0u8; 4];
                            for x in ch.encode_utf8(&mut b).as_bytes() {
                                h = step(h, *x as u64);
                            }
                        }
                    }
                    h = step(h, 256);
                    if (t + 1) % 4096 == 0 || t == count - 1 {
                        writeln!(out, "X {} {}", t + 1, h).unwrap();
                        h = 0;
                    }
                }
            }
            [""] => {}
            _ => writeln!(out, "ERR bad command {}", line).unwrap(),
        }
    }
}
