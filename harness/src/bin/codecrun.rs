//! implementation-side runner for C18: same commands, same canonical lines as ocaml/codec/driver.ml
//! (the S-prefixed spec commands exist only on the OCaml side).
use embedded_sdmmc::fat::{FatType, OnDiskDirEntry};
use embedded_sdmmc::filesystem::{ClusterId, DirEntry, FilenameError, ShortFileName, Timestamp};
use embedded_sdmmc::BlockIdx;
use std::io::{self, BufRead, Write};
use std::panic::{catch_unwind, AssertUnwindSafe};

macro_rules! guarded {
    ($e:expr) => {
        catch_unwind(AssertUnwindSafe(|| $e))
    };
}

const PRIME: u64 = 2147483647;
fn step(h: u64, r: u64) -> u64 {
    (h * 1000003 + r + 1) % PRIME
}
fn unhex(s: &str) -> Vec<u8> {
    if s == "-" {
        return vec![];
    }
    (0..s.len() / 2).map(|i| u8::from_str_radix(&s[2 * i..2 * i + 2], 16).unwrap()).collect()
}
fn hex(b: &[u8]) -> String {
    b.iter().map(|x| format!("{:02x}", x)).collect()
}
fn csv(s: &str) -> Vec<u64> {
    if s == "-" {
        vec![]
    } else {
        s.split(',').map(|x| x.parse().unwrap()).collect()
    }
}
fn ts_of(v: &[u64]) -> Timestamp {
    Timestamp {
        year_since_1970: v[0] as u8,
        zero_indexed_month: v[1] as u8,
        zero_indexed_day: v[2] as u8,
        hours: v[3] as u8,
        minutes: v[4] as u8,
        seconds: v[5] as u8,
    }
}
fn ts_fields(t: &Timestamp) -> [u64; 6] {
    [
        t.year_since_1970 as u64,
        t.zero_indexed_month as u64,
        t.zero_indexed_day as u64,
        t.hours as u64,
        t.minutes as u64,
        t.seconds as u64,
    ]
}
fn ts_str(t: &Timestamp) -> String {
    ts_fields(t).iter().map(|x| x.to_string()).collect::<Vec<_>>().join(",")
}
fn enc(t: Timestamp) -> Option<[u8; 4]> {
    catch_unwind(AssertUnwindSafe(|| t.serialize_to_fat())).ok()
}
fn dec_bytes(b: &[u8; 4]) -> Timestamp {
    Timestamp::from_fat(u16::from_le_bytes([b[2], b[3]]), u16::from_le_bytes([b[0], b[1]]))
}
fn te(t: Timestamp) -> String {
    match enc(t) {
        Some(b) => format!("{} {}", hex(&b), ts_str(&dec_bytes(&b))),
        None => "panic -".to_string(),
    }
}
fn ft_of(s: &str) -> FatType {
    match s {
        "16" => FatType::Fat16,
        "32" => FatType::Fat32,
        _ => panic!("fat type"),
    }
}
fn entry_str(e: &DirEntry) -> String {
    // name bytes: the only public view of the 11 raw bytes is through a re-serialisation or
    // base_name/extension; take them from the public forwarder (offset 0..11 of the slot)
    let raw = e.verif_serialize_name();
    format!(
        "E name={} attr={} cl={} sz={} c={} m={} blk={} off={}",
        hex(&raw.0),
        raw.1,
        cluster_num(&e.cluster),
        e.size,
        ts_str(&e.ctime),
        ts_str(&e.mtime),
        e.entry_block.0,
        e.entry_offset
    )
}
/// (name bytes, attribute byte, cluster number) of an entry, read through the FAT32 serialisation with
/// neutral timestamps (so that it cannot panic): bytes 0..11, 11, 20..22 and 26..28 are plain copies.
trait NameView {
    fn verif_serialize_name(&self) -> ([u8; 11], u8, u32);
}
impl NameView for DirEntry {
    fn verif_serialize_name(&self) -> ([u8; 11], u8, u32) {
        let mut c = self.clone();
        c.mtime = Timestamp::from_fat(0x21, 0);
        c.ctime = c.mtime;
        let b = c.verif_serialize(FatType::Fat32);
        let mut n = [0u8; 11];
        n.copy_from_slice(&b[0..11]);
        let cl = (u32::from(u16::from_le_bytes([b[20], b[21]])) << 16) | u32::from(u16::from_le_bytes([b[26], b[27]]));
        (n, b[11], cl)
    }
}
/// ClusterId's number is crate-private: decode its Debug output (hex, or a word for the magic values)
fn cluster_num(c: &ClusterId) -> u32 {
    let s = format!("{:?}", c);
    let inner = s.trim_start_matches("ClusterId(").trim_end_matches(')').trim();
    match inner {
        "INVALID" => 0xFFFF_FFF6,
        "BAD" => 0xFFFF_FFF7,
        "EMPTY" => 0,
        "ROOT" => 0xFFFF_FFFC,
        "EOF" => 0xFFFF_FFFF,
        h => u32::from_str_radix(h, 16).unwrap(),
    }
}
fn ob(r: std::thread::Result<bool>) -> &'static str {
    match r {
        Ok(true) => "t",
        Ok(false) => "f",
        Err(_) => "p",
    }
}
fn on<T: ToString>(r: std::thread::Result<T>) -> String {
    match r {
        Ok(x) => x.to_string(),
        Err(_) => "p".to_string(),
    }
}
fn fn_err(e: &FilenameError) -> (&'static str, u64) {
    match e {
        FilenameError::InvalidCharacter => ("InvalidCharacter", 0),
        FilenameError::FilenameEmpty => ("FilenameEmpty", 1),
        FilenameError::NameTooLong => ("NameTooLong", 2),
        FilenameError::MisplacedPeriod => ("MisplacedPeriod", 3),
        FilenameError::Utf8Error => ("Utf8Error", 4),
    }
}
fn sfn_bytes(n: &ShortFileName) -> [u8; 11] {
    // raw contents through the serialisation of an entry carrying this name
    let raw = [0u8; 32];
    let mut e = OnDiskDirEntry::new(&raw).get_entry(FatType::Fat32, BlockIdx(0), 0);
    e.name = n.clone();
    e.mtime = Timestamp::from_fat(0x21, 0);
    e.ctime = e.mtime;
    let b = e.verif_serialize(FatType::Fat32);
    let mut o = [0u8; 11];
    o.copy_from_slice(&b[0..11]);
    o
}
enum NRes {
    Panic,
    Err(FilenameError),
    Ok([u8; 11], Vec<u32>, Result<[u8; 11], FilenameError>, u8),
}
fn name_run(cps: &[u64]) -> NRes {
    match guarded!(name_run_inner(cps)) {
        Ok(r) => r,
        Err(_) => NRes::Panic,
    }
}
fn name_run_inner(cps: &[u64]) -> NRes {
    let s: String = cps.iter().map(|&c| char::from_u32(c as u32).expect("not a scalar value")).collect();
    match ShortFileName::create_from_str(&s) {
        Err(e) => NRes::Err(e),
        Ok(n) => {
            let d = format!("{}", n);
            let r = ShortFileName::create_from_str(&d).map(|x| sfn_bytes(&x));
            NRes::Ok(sfn_bytes(&n), d.chars().map(|c| c as u32).collect(), r, n.csum())
        }
    }
}
fn nres_str(r: &NRes) -> String {
    match r {
        NRes::Panic => "panic".to_string(),
        NRes::Err(e) => format!("Err {}", fn_err(e).0),
        NRes::Ok(b, d, r, c) => format!(
            "Ok {} D {} P {} C {}",
            hex(b),
            if d.is_empty() { "-".to_string() } else { d.iter().map(|x| x.to_string()).collect::<Vec<_>>().join(",") },
            match r {
                Ok(x) => format!("Ok {}", hex(x)),
                Err(e) => format!("Err {}", fn_err(e).0),
            },
            c
        ),
    }
}
fn nres_digest(mut h: u64, r: &NRes) -> u64 {
    match r {
        NRes::Panic => step(h, 3),
        NRes::Err(e) => step(step(h, 2), fn_err(e).1),
        NRes::Ok(b, d, r, c) => {
            h = step(h, 1);
            for x in b {
                h = step(h, *x as u64);
            }
            h = step(h, 1000);
            for x in d {
                h = step(h, *x as u64);
            }
            match r {
                Ok(x) => {
                    h = step(h, 1001);
                    for y in x {
                        h = step(h, *y as u64);
                    }
                }
                Err(e) => {
                    h = step(step(h, 1002), fn_err(e).1);
                }
            }
            step(h, *c as u64)
        }
    }
}
fn str_of_idx(alpha: &[u64], len: usize, mut k: u64) -> Vec<u64> {
    let base = alpha.len() as u64;
    let mut v = vec![0u64; len];
    for i in (0..len).rev() {
        v[i] = alpha[(k % base) as usize];
        k /= base;
    }
    v
}

fn main() {
    std::panic::set_hook(Box::new(|_| {}));
    let stdin = io::stdin();
    let out = io::stdout();
    let mut out = io::BufWriter::new(out.lock());
    for line in stdin.lock().lines() {
        let line = line.unwrap();
        let p: Vec<&str> = line.trim().split(' ').collect();
        match p.as_slice() {
            [c @ ("TD" | "TL"), d0, nd, sd, t0, nt, st] => {
                let list = *c == "TL";
                let v: Vec<u64> = [d0, nd, sd, t0, nt, st].iter().map(|x| x.parse().unwrap()).collect();
                for i in 0..v[1] {
                    let date = ((v[0] + i * v[2]) & 0xFFFF) as u16;
                    let mut h = 0u64;
                    for j in 0..v[4] {
                        let time = ((v[3] + j * v[5]) & 0xFFFF) as u16;
                        let ts = match guarded!(Timestamp::from_fat(date, time)) {
                            Ok(t) => t,
                            Err(_) => {
                                if list {
                                    writeln!(out, "R {} {} panic", date, time).unwrap();
                                } else {
                                    h = step(h, 257);
                                }
                                continue;
                            }
                        };
                        let e = enc(ts);
                        if list {
                            writeln!(out, "R {} {} {} {}", date, time, ts_str(&ts), match e {
                                Some(b) => hex(&b),
                                None => "panic".to_string(),
                            })
                            .unwrap();
                        } else {
                            for x in ts_fields(&ts) {
                                h = step(h, x);
                            }
                            match e {
                                Some(b) => {
                                    for x in b {
                                        h = step(h, x as u64);
                                    }
                                }
                                None => h = step(h, 256),
                            }
                        }
                    }
                    if !list {
                        writeln!(out, "D {} {}", date, h).unwrap();
                    }
                }
            }
            ["TE", ts] => writeln!(out, "R {}", te(ts_of(&csv(ts)))).unwrap(),
            ["TC", v] => {
                let v = csv(v);
                let r = guarded!(Timestamp::from_calendar(v[0] as u16, v[1] as u8, v[2] as u8, v[3] as u8, v[4] as u8, v[5] as u8));
                if r.is_err() {
                    writeln!(out, "R panic").unwrap();
                    continue;
                }
                match r.unwrap() {
                    Err(e) => {
                        let k = match e {
                            "Bad year" => "BadYear",
                            "Bad month" => "BadMonth",
                            "Bad day" => "BadDay",
                            "Bad hours" => "BadHours",
                            "Bad minutes" => "BadMinutes",
                            "Bad seconds" => "BadSeconds",
                            other => other,
                        };
                        writeln!(out, "R Err {}", k.replace(' ', "_")).unwrap()
                    }
                    Ok(t) => writeln!(out, "R Ok {} {}", ts_str(&t), te(t)).unwrap(),
                }
            }
            ["ES", ft, nm, attr, cl, sz, cts, mts, blk, off] => {
                let ft = ft_of(ft);
                let mut raw = [0u8; 32];
                raw[0..11].copy_from_slice(&unhex(nm));
                raw[11] = attr.parse::<u64>().unwrap() as u8;
                let mut e = OnDiskDirEntry::new(&raw).get_entry(FatType::Fat32, BlockIdx(0), 0);
                e.cluster = ClusterId::EMPTY + cl.parse::<u64>().unwrap() as u32;
                e.size = sz.parse::<u64>().unwrap() as u32;
                e.ctime = ts_of(&csv(cts));
                e.mtime = ts_of(&csv(mts));
                match guarded!(e.verif_serialize(ft)) {
                    Err(_) => writeln!(out, "R panic").unwrap(),
                    Ok(b) => {
                        let od = OnDiskDirEntry::new(&b);
                        let g = guarded!(od.get_entry(ft, BlockIdx(blk.parse().unwrap()), off.parse().unwrap()));
                        writeln!(
                            out,
                            "R {} {} F {} {} {} M {} {} C {}",
                            hex(&b),
                            match &g {
                                Ok(x) => entry_str(x),
                                Err(_) => "panic".to_string(),
                            },
                            ob(guarded!(od.is_end())),
                            ob(guarded!(od.is_valid())),
                            ob(guarded!(od.is_lfn())),
                            ob(guarded!(od.matches(&e.name))),
                            ob(guarded!(od.matches(&ShortFileName::parent_dir()))),
                            e.name.csum()
                        )
                        .unwrap();
                    }
                }
            }
            ["EP", ft, hx, blk, off] => {
                let ft = ft_of(ft);
                let d = unhex(hx);
                let od = OnDiskDirEntry::new(&d);
                let g = guarded!(od.get_entry(ft, BlockIdx(blk.parse().unwrap()), off.parse().unwrap()));
                let acc = [
                    on(guarded!(od.raw_attr())),
                    on(guarded!(od.create_time())),
                    on(guarded!(od.create_date())),
                    on(guarded!(od.last_access_data())),
                    on(guarded!(od.first_cluster_hi())),
                    on(guarded!(od.write_time())),
                    on(guarded!(od.write_date())),
                    on(guarded!(od.first_cluster_lo())),
                    on(guarded!(od.file_size())),
                    on(guarded!(cluster_num(&od.first_cluster_fat32()))),
                ];
                writeln!(
                    out,
                    "R {} A {} F {} {} {}",
                    match &g {
                        Ok(x) => entry_str(x),
                        Err(_) => "panic".to_string(),
                    },
                    acc.join(" "),
                    ob(guarded!(od.is_end())),
                    ob(guarded!(od.is_valid())),
                    ob(guarded!(od.is_lfn()))
                )
                .unwrap();
            }
            ["N", s] => writeln!(out, "R {}", nres_str(&name_run(&csv(s)))).unwrap(),
            [c @ ("NE" | "NL"), alpha, len, start, count] => {
                let list = *c == "NL";
                let alpha = csv(alpha);
                let (len, start, count): (usize, u64, u64) = (len.parse().unwrap(), start.parse().unwrap(), count.parse().unwrap());
                let mut h = 0u64;
                for t in 0..count {
                    let r = name_run(&str_of_idx(&alpha, len, start + t));
                    if list {
                        writeln!(out, "R {} {}", start + t, nres_str(&r)).unwrap();
                    } else {
                        h = nres_digest(h, &r);
                        if (t + 1) % 4096 == 0 || t == count - 1 {
                            writeln!(out, "D {} {}", t + 1, h).unwrap();
                            h = 0;
                        }
                    }
                }
            }
            [""] => {}
            _ => writeln!(out, "ERR bad command {}", line).unwrap(),
        }
    }
}
