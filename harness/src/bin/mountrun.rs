//! implementation-side runner for C15: same commands, same canonical lines as ocaml/mount/driver.ml
//!   RESET | B <idx> <1024 hex> | LIMIT <n> | MOUNT <slot>       (shared with the model driver)
//!   READ <slot> <NAME>   open the volume, the root directory and the file, read it all, print length + CRC-32
//! The FatVolume fields are pub(crate); they are observed through the derived Debug output of the
//! VolumeManager (no hook needed).
use embedded_sdmmc::{Block, BlockCount, BlockDevice, BlockIdx, Error, Mode, TimeSource, Timestamp, VolumeIdx, VolumeManager};
use std::collections::HashMap;
use std::io::{self, BufRead, Write};
use std::panic::{catch_unwind, AssertUnwindSafe};
use std::rc::Rc;

#[derive(Clone)]
struct Ram {
    blocks: Rc<HashMap<u32, [u8; 512]>>,
    limit: u64,
}
impl core::fmt::Debug for Ram {
    fn fmt(&self, f: &mut core::fmt::Formatter) -> core::fmt::Result {
        write!(f, "Ram")
    }
}
#[derive(Debug)]
struct OutOfRange;
impl BlockDevice for Ram {
    type Error = OutOfRange;
    fn read(&self, blocks: &mut [Block], start: BlockIdx) -> Result<(), OutOfRange> {
        for (k, b) in blocks.iter_mut().enumerate() {
            let idx = start.0 as u64 + k as u64;
            if idx >= self.limit || idx > u32::MAX as u64 {
                return Err(OutOfRange);
            }
            match self.blocks.get(&(idx as u32)) {
                Some(d) => b.contents.copy_from_slice(d),
                None => b.contents.fill(0),
            }
        }
        Ok(())
    }
    fn write(&self, _blocks: &[Block], _start: BlockIdx) -> Result<(), OutOfRange> {
        Err(OutOfRange) // mounting and reading never write
    }
    fn num_blocks(&self) -> Result<BlockCount, OutOfRange> {
        Ok(BlockCount(self.limit.min(u32::MAX as u64) as u32))
    }
}
#[derive(Debug)]
struct Clock;
impl TimeSource for Clock {
    fn get_timestamp(&self) -> Timestamp {
        Timestamp { year_since_1970: 0, zero_indexed_month: 0, zero_indexed_day: 0, hours: 0, minutes: 0, seconds: 0 }
    }
}

fn unhex(s: &str) -> Vec<u8> {
    (0..s.len() / 2).map(|i| u8::from_str_radix(&s[2 * i..2 * i + 2], 16).unwrap()).collect()
}
fn crc32(data: &[u8], mut crc: u32) -> u32 {
    crc = !crc;
    for &b in data {
        crc ^= b as u32;
        for _ in 0..8 {
            crc = if crc & 1 != 0 { (crc >> 1) ^ 0xEDB8_8320 } else { crc >> 1 };
        }
    }
    !crc
}

/// text between `key` (searched from `from`) and the next `end`
fn between<'a>(s: &'a str, key: &str, end: &str) -> Option<&'a str> {
    let i = s.find(key)? + key.len();
    let j = s[i..].find(end)? + i;
    Some(&s[i..j])
}
fn opt_num(s: &str, key: &str, wrap: &str) -> String {
    // `key: None` or `key: Some(Wrap(123))` / `key: Some(123)`
    let k = format!("{}: ", key);
    let i = s.find(&k).unwrap() + k.len();
    let r = &s[i..];
    if r.starts_with("None") {
        "none".to_string()
    } else {
        let pre = if wrap.is_empty() { "Some(".to_string() } else { format!("Some({}(", wrap) };
        assert!(r.starts_with(&pre), "unexpected debug text for {}", key);
        let r = &r[pre.len()..];
        let t = &r[..r.find(')').unwrap()];
        if wrap == "ClusterId" {
            cluster_num(t)
        } else {
            t.to_string()
        }
    }
}

/// ClusterId's Debug prints 8 hex digits, or a padded name for the magic values
fn cluster_num(t: &str) -> String {
    match t.trim() {
        "INVALID" => 0xFFFF_FFF6u32.to_string(),
        "BAD" => 0xFFFF_FFF7u32.to_string(),
        "EMPTY" => "0".to_string(),
        "ROOT" => 0xFFFF_FFFCu32.to_string(),
        "EOF" => 0xFFFF_FFFFu32.to_string(),
        h => u32::from_str_radix(h, 16).unwrap().to_string(),
    }
}

fn error_line<E: core::fmt::Debug>(e: &Error<E>) -> String {
    match e {
        Error::DeviceError(_) => "err DeviceError".to_string(),
        Error::FormatError(m) => format!("err FormatError \"{}\"", m),
        Error::NoSuchVolume => "err NoSuchVolume".to_string(),
        Error::BadBlockSize(n) => format!("err BadBlockSize({})", n),
        other => {
            let t = format!("{:?}", other);
            format!("err {}", t.split(|c| c == '(' || c == ' ').next().unwrap_or(""))
        }
    }
}

/// canonical `ok ...` line from the Debug text of a manager holding exactly one open volume
fn volume_line(dbg: &str) -> String {
    // the block cache (hex + ascii dump of the last block read) precedes `open_volumes`; take the last
    // occurrence so that block contents cannot imitate the key
    let start = dbg.rfind("open_volumes: [VolumeInfo {").expect("no open volume in debug text");
    let s = &dbg[start..];
    let lba = between(s, "lba_start: BlockIdx(", ")").unwrap();
    let nb = between(s, "num_blocks: BlockCount(", ")").unwrap();
    // the label: ISO-8859-1 characters, trailing ASCII whitespace removed by the crate's Display impl;
    // it is at most 11 characters so it cannot contain the closing delimiter
    let label = between(s, "name: VolumeName(\"", "\"), blocks_per_cluster: ").unwrap();
    let label_hex: String = label.chars().map(|c| format!("{:02x}", c as u32)).collect();
    let after = &s[s.find("\"), blocks_per_cluster: ").unwrap()..];
    let bpc = between(after, "blocks_per_cluster: ", ",").unwrap();
    let fdb = between(after, "first_data_block: BlockCount(", ")").unwrap();
    let fs = between(after, "fat_start: BlockCount(", ")").unwrap();
    let sec = opt_num(after, "second_fat_start", "BlockCount");
    let free = opt_num(after, "free_clusters_count", "");
    let next = opt_num(after, "next_free_cluster", "ClusterId");
    let cc = between(after, "cluster_count: ", ",").unwrap();
    let spec = if after.contains("fat_specific_info: Fat16(") {
        format!(
            "fat16 first_root_dir_block={} root_entries={}",
            between(after, "first_root_dir_block: BlockCount(", ")").unwrap(),
            between(after, "root_entries_count: ", " ").unwrap().trim_end_matches(|c| c == ',' || c == '}')
        )
    } else {
        format!(
            "fat32 root_cluster={} info_location={}",
            cluster_num(between(after, "first_root_dir_cluster: ClusterId(", ")").unwrap()),
            between(after, "info_location: BlockIdx(", ")").unwrap()
        )
    };
    format!(
        "ok lba_start={} num_blocks={} label={} bpc={} first_data={} fat_start={} second_fat={} free={} next_free={} clusters={} {}",
        lba, nb, label_hex, bpc, fdb, fs, sec, free, next, cc, spec
    )
}

fn do_mount(dev: Ram, slot: usize) -> String {
    let r = catch_unwind(AssertUnwindSafe(|| {
        let mgr = VolumeManager::new(dev, Clock);
        match mgr.open_raw_volume(VolumeIdx(slot)) {
            Ok(_) => volume_line(&format!("{:?}", mgr)),
            Err(e) => error_line(&e),
        }
    }));
    r.unwrap_or_else(|_| "panic".to_string())
}

fn do_read(dev: Ram, slot: usize, name: &str) -> String {
    let r = catch_unwind(AssertUnwindSafe(|| {
        let mgr = VolumeManager::new(dev, Clock);
        let go = || -> Result<String, Error<OutOfRange>> {
            let v = mgr.open_raw_volume(VolumeIdx(slot))?;
            let d = mgr.open_root_dir(v)?;
            let f = mgr.open_file_in_dir(d, name, Mode::ReadOnly)?;
            let len = mgr.file_length(f)?;
            let mut crc = 0u32;
            let mut total = 0u64;
            let mut buf = vec![0u8; 4096];
            loop {
                let n = mgr.read(f, &mut buf)?;
                if n == 0 {
                    break;
                }
                crc = crc32(&buf[..n], crc);
                total += n as u64;
                if total > (1 << 26) {
                    break;
                }
            }
            Ok(format!("file len={} read={} crc={:08x}", len, total, crc))
        };
        match go() {
            Ok(s) => s,
            Err(e) => error_line(&e),
        }
    }));
    r.unwrap_or_else(|_| "panic".to_string())
}

fn main() {
    std::panic::set_hook(Box::new(|_| {}));
    let stdin = io::stdin();
    let out = io::stdout();
    let mut out = io::BufWriter::new(out.lock());
    let mut dev = Ram { blocks: Rc::new(HashMap::new()), limit: u64::MAX };
    for line in stdin.lock().lines() {
        let line = line.unwrap();
        let p: Vec<&str> = line.trim().split(' ').collect();
        match p.as_slice() {
            ["RESET"] => dev = Ram { blocks: Rc::new(HashMap::new()), limit: u64::MAX },
            ["B", idx, hex] => {
                let mut b = [0u8; 512];
                let v = unhex(hex);
                b[..v.len().min(512)].copy_from_slice(&v[..v.len().min(512)]);
                // a block index beyond u32 cannot be addressed by the crate: such a block does not exist
                if let Ok(i) = idx.parse::<u32>() {
                    Rc::make_mut(&mut dev.blocks).insert(i, b);
                }
            }
            ["LIMIT", n] => dev.limit = n.parse().unwrap(),
            ["MOUNT", slot] => writeln!(out, "{}", do_mount(dev.clone(), slot.parse().unwrap())).unwrap(),
            ["READ", slot, name] => writeln!(out, "{}", do_read(dev.clone(), slot.parse().unwrap(), name)).unwrap(),
            [""] => {}
            _ => writeln!(out, "ERR bad command {}", &line[..line.len().min(40)]).unwrap(),
        }
    }
}
