#!/bin/sh
# Build the framework from files on disk only (offline): all Coq groups (full .vo
# builds, which also run the extractions), the OCaml model runners, the harness crate.
set -e
cd "$(dirname "$0")"
export CARGO_NET_OFFLINE=true
python3 - <<'PY'
import sys, os, glob
sys.path.insert(0, "lib")
import vcommon as V
from concurrent.futures import ThreadPoolExecutor
groups = open("ACTIVE_GROUPS").read().split()
for g in groups:
    os.makedirs(os.path.join(V.BUILD, "extract", g), exist_ok=True)
def b(g):
    ok, out = V.coq_build(g)
    return g, ok, out
bad = False
with ThreadPoolExecutor(max_workers=4) as ex:
    for g, ok, out in ex.map(b, groups):
        print("coq group %-8s %s" % (g, "ok" if ok else "FAILED"))
        if not ok:
            print(out[-3000:]); bad = True
for g in groups:
    if os.path.exists(os.path.join("ocaml", g, "ORDER")):
        try:
            V.ocaml_build(g); print("ocaml %-8s ok" % g)
        except Exception as e:
            print(e); bad = True
import subprocess
for prof in ("dev", "release"):
    args = ["cargo", "build", "--offline"] + sum([["--bin", b] for b in open("ACTIVE_BINS").read().split()], []) + (["--release"] if prof == "release" else [])
    rc, out = V.sh(args, cwd=V.HARNESS, timeout=3000)
    print("cargo %s %s" % (prof, "ok" if rc == 0 else "FAILED"))
    if rc != 0:
        print(out[-3000:]); bad = True
sys.exit(1 if bad else 0)
PY
